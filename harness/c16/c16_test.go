// Correspondence harness for C16 (directory root CID depends only on the final
// entries and the configuration).  For a chosen final entry set and a threshold /
// maxLinks placed right at its size, random edit histories (adds, replacements with
// CIDs of other lengths, removals, detours through extra entries) are run on the real
// DynamicDirectory / HAMTDirectory; after every edit the error class, the UnixFS type,
// estimatedSize or sizeChange, totalLinks and the per-directory threshold are read
// (hook VerifDirState).  The surviving entries are then added in name order to a second
// fresh directory of the same configuration and the two root CIDs are compared.
// Everything goes into cases_*.v; Coq evaluates the exact model of the switching
// arithmetic (model/M_C16.v) and the specification (documented sharding rule after
// every edit, threshold kept, same root CID as the canonical build) on it.
package c16

import (
	"context"
	"encoding/binary"
	"errors"
	"fmt"
	"math/rand"
	"os"
	"sort"
	"strings"
	"testing"
	"time"

	cid "github.com/ipfs/go-cid"
	ipld "github.com/ipfs/go-ipld-format"
	mh "github.com/multiformats/go-multihash"

	mdtest "github.com/ipfs/boxo/ipld/merkledag/test"
	ft "github.com/ipfs/boxo/ipld/unixfs"
	"github.com/ipfs/boxo/ipld/unixfs/hamt"
	uio "github.com/ipfs/boxo/ipld/unixfs/io"

	"verif/harness/vh"
)

var ctx = context.Background()

// ---------- values ----------

type valT struct {
	id     int
	cidlen int
	tsize  uint64
}

func (v valT) lit() string {
	return vh.App("mkval", vh.Z(int64(v.id)), vh.Z(int64(v.cidlen)), vh.ZU(v.tsize))
}

type pool struct {
	ds    ipld.DAGService
	nodes []ipld.Node
	vals  []valT
}

func newPool(ds ipld.DAGService, n int) *pool {
	p := &pool{ds: ds}
	for i := 0; i < n; i++ {
		nd := ft.EmptyFileNode()
		nd.SetData([]byte(strings.Repeat("x", (i*53)%400) + fmt.Sprint(i)))
		if i == n-1 {
			nd.SetData([]byte(strings.Repeat("y", 20000))) // Tsize needs a three-byte varint
		}
		switch i % 3 {
		case 1:
			nd.SetCidBuilder(cid.V1Builder{Codec: cid.DagProtobuf, MhType: mh.SHA2_256})
		case 2:
			nd = ft.EmptyFileNode()
			nd.SetData([]byte(fmt.Sprintf("i%d", i)))
			nd.SetCidBuilder(cid.Prefix{Version: 1, Codec: cid.DagProtobuf, MhType: mh.IDENTITY, MhLength: -1})
		}
		if err := ds.Add(ctx, nd); err != nil {
			panic(err)
		}
		l, err := ipld.MakeLink(nd)
		if err != nil {
			panic(err)
		}
		p.nodes = append(p.nodes, nd)
		p.vals = append(p.vals, valT{id: i, cidlen: len(l.Cid.Bytes()), tsize: l.Size})
	}
	return p
}

func nameLit(s string) string {
	if lit, ok := vh.Str(s); ok {
		return lit
	}
	return vh.App("bs", vh.Bytes([]byte(s)))
}

// ---------- sizes (only to PLACE thresholds; the judgement is Coq's) ----------

func varintLen(v uint64) int {
	n := 1
	for v >= 0x80 {
		v >>= 7
		n++
	}
	return n
}
func lsize(name string, v valT) int { return len(name) + v.cidlen }
func bsize(name string, v valT) int {
	linkLen := 1 + varintLen(uint64(v.cidlen)) + v.cidlen + 1 + varintLen(uint64(len(name))) + len(name) + 1 + varintLen(v.tsize)
	return 1 + varintLen(uint64(linkLen)) + linkLen
}

// ---------- configuration ----------

type config struct {
	width    int
	maxLinks int
	mode     uio.SizeEstimationMode
	thresh   int
	global   int
	dynamic  bool
	fmode    os.FileMode
	mtime    time.Time
	v1       bool // CIDv1 builder for the directory nodes
}

func lg2(w int) int {
	n := 0
	for 1<<n < w {
		n++
	}
	return n
}
func padlen(w int) int { return len(fmt.Sprintf("%X", w-1)) }

func (c config) dsz() int { return uio.VerifDataFieldSize(c.fmode, c.mtime) }

func (c config) coq() string {
	return vh.App("mkcfg16", vh.Z(int64(lg2(c.width))), vh.Nat(padlen(c.width)), vh.Z(int64(c.maxLinks)),
		vh.Z(int64(c.global)), vh.Z(int64(c.thresh)), vh.Z(int64(c.mode)), vh.Z(int64(c.dsz())), vh.Bool(c.dynamic))
}

func (c config) String() string {
	return fmt.Sprintf("w=%d ml=%d mode=%d th=%d glob=%d dyn=%v fmode=%o mtime=%d v1=%v", c.width, c.maxLinks, c.mode,
		c.thresh, c.global, c.dynamic, c.fmode, c.mtime.Unix(), c.v1)
}

func (c config) fresh(ds ipld.DAGService) uio.Directory {
	opts := []uio.DirectoryOption{uio.WithMaxHAMTFanout(c.width), uio.WithMaxLinks(c.maxLinks), uio.WithSizeEstimationMode(c.mode)}
	if c.fmode != 0 || !c.mtime.IsZero() {
		opts = append(opts, uio.WithStat(c.fmode, c.mtime))
	}
	if c.v1 {
		opts = append(opts, uio.WithCidBuilder(cid.V1Builder{Codec: cid.DagProtobuf, MhType: mh.SHA2_256}))
	}
	var d uio.Directory
	var err error
	if c.dynamic {
		d, err = uio.NewDirectory(ds, opts...)
	} else {
		d, err = uio.NewHAMTDirectory(ds, 0, opts...)
	}
	if err != nil {
		panic(err)
	}
	d.SetHAMTShardingSize(c.thresh)
	return d
}

func errClass(err error) string {
	switch {
	case err == nil:
		return "None"
	case errors.Is(err, os.ErrNotExist):
		return "(Some ENotExist)"
	case strings.Contains(err.Error(), "maxLinks reached"):
		return "(Some EMaxLinks)"
	case strings.Contains(err.Error(), "too deep"):
		return "(Some ETooDeep)"
	}
	return "(Some EOther)"
}

// ---------- a history ----------

type edit struct {
	add  bool
	name string
	vi   int
}

// reloadEdit: persist (GetNode, all blocks stored), re-open from the root node, re-apply the configuration
var reloadEdit = edit{name: "\x00reload"}

func (e edit) isReload() bool { return e.name == reloadEdit.name }

// reopen persists the directory and loads it again from its root node.
func (c config) reopen(ds ipld.DAGService, d uio.Directory) (uio.Directory, error) {
	nd, err := d.GetNode()
	if err != nil {
		return nil, err
	}
	if err := ds.Add(ctx, nd); err != nil {
		return nil, err
	}
	nd, err = ds.Get(ctx, nd.Cid()) // nothing in memory is shared with the old object
	if err != nil {
		return nil, err
	}
	var d2 uio.Directory
	if c.dynamic {
		d2, err = uio.NewDirectoryFromNode(ds, nd)
	} else {
		d2, err = uio.NewHAMTDirectoryFromNode(ds, nd)
	}
	if err != nil {
		return nil, err
	}
	d2.SetMaxLinks(c.maxLinks)
	d2.SetMaxHAMTFanout(c.width)
	d2.SetSizeEstimationMode(c.mode)
	d2.SetHAMTShardingSize(c.thresh)
	d2.SetStat(c.fmode, c.mtime)
	return d2, nil
}

type outcome struct {
	ops, obs []string
	log      []string
	final    map[string]int
	rootCid  string
	rootHamt bool
	switches int
	reloads  int
	ups      int
	downs    int
	errs     int
}

func rootOf(d uio.Directory) (string, bool) {
	nd, err := d.GetNode()
	if err != nil {
		panic(err)
	}
	h, _, _, _ := uio.VerifDirState(d)
	return nd.Cid().String(), h
}

func runEdits(p *pool, c config, edits []edit, names map[string]int) *outcome {
	saved := uio.HAMTShardingSize
	uio.HAMTShardingSize = c.global
	defer func() { uio.HAMTShardingSize = saved }()
	o := &outcome{final: map[string]int{}}
	d := c.fresh(p.ds)
	prevH, _, _, _ := uio.VerifDirState(d)
	nm := func(s string) string {
		if i, ok := names[s]; ok {
			return fmt.Sprintf("n%d", i)
		}
		return nameLit(s)
	}
	for _, e := range edits {
		var err error
		if e.isReload() {
			var d2 uio.Directory
			d2, err = c.reopen(p.ds, d)
			if err == nil {
				d = d2
			}
			o.ops = append(o.ops, "AReload")
			o.log = append(o.log, "reload")
			o.reloads++
		} else if e.add {
			err = d.AddChild(ctx, e.name, p.nodes[e.vi])
			o.ops = append(o.ops, vh.App("AAdd", nm(e.name), fmt.Sprintf("v%d", e.vi)))
			if err == nil {
				o.final[e.name] = e.vi
			}
			o.log = append(o.log, fmt.Sprintf("add %q %d", e.name, e.vi))
		} else {
			err = d.RemoveChild(ctx, e.name)
			o.ops = append(o.ops, vh.App("ARemove", nm(e.name)))
			if err == nil {
				delete(o.final, e.name)
			}
			o.log = append(o.log, fmt.Sprintf("rm %q", e.name))
		}
		if err != nil {
			o.errs++
		}
		h, size, total, th := uio.VerifDirState(d)
		if h != prevH {
			o.switches++
			if h {
				o.ups++
			} else {
				o.downs++
			}
		}
		prevH = h
		o.obs = append(o.obs, vh.App("mkob", errClass(err), vh.Bool(h), vh.Z(int64(size)), vh.Z(int64(total)), vh.Z(int64(th))))
	}
	o.rootCid, o.rootHamt = rootOf(d)
	return o
}

// canonical build: surviving entries in name order into a fresh directory
func canonical(p *pool, c config, final map[string]int) (string, bool) {
	saved := uio.HAMTShardingSize
	uio.HAMTShardingSize = c.global
	defer func() { uio.HAMTShardingSize = saved }()
	var ns []string
	for n := range final {
		ns = append(ns, n)
	}
	sort.Strings(ns)
	d := c.fresh(p.ds)
	for _, n := range ns {
		if err := d.AddChild(ctx, n, p.nodes[final[n]]); err != nil {
			panic(fmt.Sprintf("canonical build: %v", err))
		}
	}
	return rootOf(d)
}

func caseTerm(p *pool, c config, o *outcome, nameList []string, sameCid, canonHamt bool) string {
	var b strings.Builder
	for i, s := range nameList {
		fmt.Fprintf(&b, "let n%d := %s in ", i, nameLit(s))
	}
	for i, v := range p.vals {
		fmt.Fprintf(&b, "let v%d := %s in ", i, v.lit())
	}
	tbl := make([]string, len(nameList))
	for i, s := range nameList {
		tbl[i] = vh.Pair(fmt.Sprintf("n%d", i), vh.Bytes(hamt.VerifHashOf(s)))
	}
	b.WriteString("CRoot " + c.coq() + " " + vh.List(tbl) + " " + vh.List(o.ops) + " " + vh.List(o.obs) + " " +
		vh.Bool(sameCid) + " " + vh.Bool(canonHamt))
	return b.String()
}

// ---------- generators ----------

type digested struct {
	name string
	h    uint64
}

func murmurSorted(n int) []digested {
	out := make([]digested, n)
	for i := range out {
		nm := fmt.Sprintf("k%d", i)
		out[i] = digested{nm, binary.BigEndian.Uint64(hamt.VerifHashOf(nm))}
	}
	sort.Slice(out, func(i, j int) bool { return out[i].h < out[j].h })
	return out
}

func commonBits(a, b uint64) int {
	x := a ^ b
	n := 0
	for n < 64 && x&(1<<uint(63-n)) == 0 {
		n++
	}
	return n
}

func collidingGroups(sorted []digested, bits int) [][]string {
	var out [][]string
	i := 0
	for i < len(sorted) {
		j := i + 1
		for j < len(sorted) && commonBits(sorted[i].h, sorted[j].h) >= bits {
			j++
		}
		if j-i >= 2 {
			g := []string{}
			for k := i; k < j; k++ {
				g = append(g, sorted[k].name)
			}
			out = append(out, g)
		}
		i = j
	}
	return out
}

const alphabet = "abcdefghijklmnopqrstuvwxyzABCDEFGHIJKLMNOPQRSTUVWXYZ0123456789._-"

func randName(r *rand.Rand) string {
	n := 1 + r.Intn(14)
	switch r.Intn(12) {
	case 0:
		n = 1
	case 1:
		n = 20 + r.Intn(40)
	case 2:
		n = 100 + r.Intn(60) // two-byte varints in block mode
	}
	b := make([]byte, n)
	for i := range b {
		b[i] = alphabet[r.Intn(len(alphabet))]
	}
	return string(b)
}

var widths = []int{8, 16, 32, 64, 128, 256, 512, 1024}

func sizeOf(c config, set map[string]int, p *pool) int {
	s := 0
	if c.mode == uio.SizeEstimationBlock {
		s = c.dsz()
	}
	for n, vi := range set {
		if c.mode == uio.SizeEstimationBlock {
			s += bsize(n, p.vals[vi])
		} else {
			s += lsize(n, p.vals[vi])
		}
	}
	return s
}

// a random history whose successful execution leaves exactly `final`
func genHistory(r *rand.Rand, final map[string]int, extras []string, nvals int, maxOps int) []edit {
	var names []string
	for n := range final {
		names = append(names, n)
	}
	sort.Strings(names)
	r.Shuffle(len(names), func(i, j int) { names[i], names[j] = names[j], names[i] })
	var eds []edit
	cur := map[string]int{}
	budget := maxOps - len(names)
	// a present name satisfying pred, chosen reproducibly
	pick := func(pred func(string) bool) (string, bool) {
		var cand []string
		for n := range cur {
			if pred(n) {
				cand = append(cand, n)
			}
		}
		if len(cand) == 0 {
			return "", false
		}
		sort.Strings(cand)
		return cand[r.Intn(len(cand))], true
	}
	inFinal := func(n string) bool { _, in := final[n]; return in }
	notFinal := func(n string) bool { return !inFinal(n) }
	// detours are interleaved with the essential adds
	detour := func() {
		if budget <= 0 {
			return
		}
		switch r.Intn(5) {
		case 0, 1: // an extra entry that has to go again (queued removal happens later)
			if len(extras) > 0 && budget >= 2 {
				x := extras[r.Intn(len(extras))]
				if _, in := final[x]; !in {
					eds = append(eds, edit{true, x, r.Intn(nvals)})
					cur[x] = 1
					budget -= 2
				}
			}
		case 2: // replace a present final entry by another value (restored at the end)
			if n, ok := pick(inFinal); ok {
				vi := r.Intn(nvals)
				eds = append(eds, edit{true, n, vi})
				cur[n] = -1 - vi
				budget -= 2
			}
		case 3: // remove a present final entry (re-added later)
			if n, ok := pick(inFinal); ok && budget >= 2 {
				eds = append(eds, edit{false, n, 0})
				delete(cur, n)
				budget -= 2
			}
		case 4: // remove an extra now
			if n, ok := pick(notFinal); ok {
				eds = append(eds, edit{false, n, 0})
				delete(cur, n)
			}
		}
	}
	for _, n := range names {
		for r.Intn(3) == 0 {
			detour()
		}
		eds = append(eds, edit{true, n, final[n]})
		cur[n] = 0
	}
	for r.Intn(2) == 0 {
		detour()
	}
	// repair: everything back to `final`, in random order
	var fix []edit
	var curNames []string
	for n := range cur {
		curNames = append(curNames, n)
	}
	sort.Strings(curNames)
	for _, n := range curNames {
		if _, in := final[n]; !in {
			fix = append(fix, edit{false, n, 0})
		} else if cur[n] != 0 {
			fix = append(fix, edit{true, n, final[n]})
		}
	}
	for _, n := range names {
		if _, in := cur[n]; !in {
			fix = append(fix, edit{true, n, final[n]})
		}
	}
	r.Shuffle(len(fix), func(i, j int) { fix[i], fix[j] = fix[j], fix[i] })
	return append(eds, fix...)
}

func TestC16(t *testing.T) {
	e := vh.Load(t)
	st := vh.NewStats("edit histories (adds, replacements with other CID lengths, removals, detours; <= ~45 ops) reaching a chosen final set, " +
		"threshold / maxLinks placed at the final size -3..+3 (all three modes, per-directory and global thresholds, mode/mtime, CIDv0/v1), " +
		"compared with the canonical sorted build; non-trivial = the directory changed type at least once during the history or the final set is sharded; distinct by (config, ops)")
	cs := vh.NewCases(e, "From V Require Import model.M_C15 model.M_C16.\nOpen Scope Z_scope.\nOpen Scope string_scope.", "case16", "check_case16", 40)
	r := e.Rng
	ds := mdtest.Mock()
	p := newPool(ds, 19) // the last one (index 18, CIDv0) is large
	sorted := murmurSorted(e.Pick(40000, 200000))

	emit := func(c config, edits []edit, tag string) {
		nameIdx := map[string]int{}
		var nameList []string
		for _, ed := range edits {
			if ed.isReload() {
				continue
			}
			if _, ok := nameIdx[ed.name]; !ok {
				nameIdx[ed.name] = len(nameList)
				nameList = append(nameList, ed.name)
			}
		}
		o := runEdits(p, c, edits, nameIdx)
		ccid, chamt := canonical(p, c, o.final)
		same := ccid == o.rootCid
		rp := map[string]any{"kind": tag, "config": c.String(), "ops": o.log, "same_cid": same, "root_hamt": o.rootHamt, "canon_hamt": chamt}
		cs.Add(caseTerm(p, c, o, nameList, same, chamt), rp)
		st.Case(c.String()+"|"+strings.Join(o.log, ";"), o.switches > 0 || chamt)
		st.Count("hist:" + tag)
		st.Count(fmt.Sprintf("mode=%d", c.mode))
		st.Count(fmt.Sprintf("width=%d", c.width))
		st.Distribution["conversions:basic->hamt"] += o.ups
		st.Distribution["conversions:hamt->basic"] += o.downs
		st.Distribution["ops"] += len(edits)
		st.Distribution["reloads"] += o.reloads
		st.Distribution["errors"] += o.errs
		if !same {
			st.Count("root-differs-from-canonical")
		}
		if chamt {
			st.Count("canonical:hamt")
		} else {
			st.Count("canonical:basic")
		}
		if !c.dynamic {
			st.Count("pure-hamt")
		}
		st.Sample(rp, 6)
	}

	rep := func(ch string, n int) string { return strings.Repeat(ch, n) }
	v0a, v1a, ida := 0, 1, 2 // pool indices: CIDv0 (34 bytes), CIDv1 (36 bytes), identity (short)

	// ---- directed: a REPLACE in a still-basic directory across each Tsize varint width, the threshold at
	// the resulting size -2..+2, in every estimation mode (seeded change C16-1: the overwritten entry sized
	// with the new link's Tsize) ----
	{
		byWidth := map[int]int{} // Tsize varint width -> pool index of a CIDv0 value
		for i, v := range p.vals {
			if _, ok := byWidth[varintLen(v.tsize)]; !ok && v.cidlen == 34 {
				byWidth[varintLen(v.tsize)] = i
			}
		}
		for _, pair := range [][2]int{{1, 2}, {2, 1}, {1, 3}, {3, 1}, {2, 3}, {3, 2}} {
			vo, okO := byWidth[pair[0]]
			vn, okN := byWidth[pair[1]]
			if !okO || !okN {
				t.Fatalf("value pool has no Tsize of varint width %v", pair)
			}
			for mode := 0; mode < 3; mode++ {
				for delta := -2; delta <= 2; delta++ {
					c := config{width: 16, mode: uio.SizeEstimationMode(mode), global: 256 * 1024, dynamic: true}
					if mode == 2 {
						c.maxLinks = 3 + delta%2
					}
					after := map[string]int{"fill-a": vo, "fill-b": vn, "target": vn}
					c.thresh = sizeOf(c, after, p) + delta
					emit(c, []edit{{true, "fill-a", vo}, {true, "fill-b", vn}, {true, "target", vo}, {true, "target", vn},
						{true, "target", vo}, {true, "target", vn}, {false, "fill-a", 0}}, "directed-replace-tsize")
				}
			}
		}
	}

	// ---- corpus: persist, re-open from the root node, then remove (seeded change C16-2 in Shard.Node():
	// a still-unloaded value link hoisted out of a dissolved sub-shard must be re-labelled with its slot) ----
	for _, w := range []struct{ width, total, drop int }{{256, 150, 50}, {8, 40, 15}, {16, 60, 25}} {
		c := config{width: w.width, mode: uio.SizeEstimationLinks, global: 256 * 1024, dynamic: false}
		var eds []edit
		for i := 0; i < w.total; i++ {
			eds = append(eds, edit{add: true, name: fmt.Sprintf("file-%04d", i), vi: i % len(p.nodes)})
		}
		eds = append(eds, reloadEdit)
		for i := w.total - w.drop; i < w.total; i++ {
			eds = append(eds, edit{name: fmt.Sprintf("file-%04d", i)})
		}
		emit(c, eds, "corpus-reload")
	}
	{
		base := config{width: 256, mode: uio.SizeEstimationLinks, global: 256 * 1024, dynamic: true}
		// C16-1 (DESIGN 4.3): four 46-byte entries + one 45-byte entry = 229 = threshold; add a 46-byte
		// entry (-> HAMT), remove the 45-byte one.
		c := base
		c.thresh = 229
		emit(c, []edit{{true, rep("a", 12), v0a}, {true, rep("b", 12), v0a}, {true, rep("c", 12), v0a}, {true, rep("d", 12), v0a},
			{true, rep("m", 11), v0a}, {true, rep("e", 12), v0a}, {false, rep("m", 11), 0}}, "corpus-C16-1")
		// C16-2: HAMT -> basic through AddChild (a replacement by a smaller value) must keep the per-directory threshold
		c = base
		c.thresh = 80
		emit(c, []edit{{true, rep("a", 6), v0a}, {true, rep("b", 4), v1a}, {true, rep("x", 26), v0a}, {false, rep("a", 6), 0},
			{true, rep("b", 4), ida}, {true, rep("y", 30), v0a}, {true, rep("z", 30), v0a}}, "corpus-C16-2")
		// add X (-> HAMT), remove X: back to basic
		c = base
		c.thresh = 80
		emit(c, []edit{{true, rep("a", 6), v0a}, {true, rep("b", 6), v0a}, {true, rep("x", 10), v0a}, {false, rep("x", 10), 0}}, "corpus")
		// C16-3: 80 bytes under a threshold of 100, X (44) makes it a HAMT, a small entry is added, X removed:
		// 90 bytes but the sizeChange gate keeps the HAMT
		c = base
		c.thresh = 100
		emit(c, []edit{{true, rep("a", 6), v0a}, {true, rep("b", 6), v0a}, {true, rep("x", 10), v0a}, {true, "yy", ida}, {false, rep("x", 10), 0}}, "corpus-C16-3")
		// the same with maxLinks as the trigger
		c = base
		c.maxLinks = 2
		emit(c, []edit{{true, "a", v0a}, {true, "b", v0a}, {true, "c", v0a}, {false, "a", 0}}, "corpus-C16-3")
		// C16-5: replacing the long-named entry of a HAMT by itself must not convert it
		c = base
		c.thresh = 120
		emit(c, []edit{{true, rep("a", 6), v0a}, {true, rep("b", 6), v0a}, {true, rep("x", 50), v0a}, {true, rep("x", 50), v0a}}, "corpus-C16-5")
		// C16-4: block mode, three removals after one add: the gate in mixed units stays shut
		for xl := 88; xl <= 112; xl++ {
			c = base
			c.mode = uio.SizeEstimationBlock
			set := map[string]int{rep("a", 6): v0a, rep("b", 6): v0a, rep("c", 6): v0a, rep("d", 6): v0a}
			c.thresh = sizeOf(c, set, p)
			emit(c, []edit{{true, rep("a", 6), v0a}, {true, rep("b", 6), v0a}, {true, rep("c", 6), v0a}, {true, rep("d", 6), v0a},
				{true, rep("x", xl), v0a}, {false, rep("a", 6), 0}, {false, rep("b", 6), 0}, {false, rep("c", 6), 0}}, "corpus-C16-4")
		}
	}

	// ---- random histories ----
	n := e.Pick(420, 4000)
	for i := 0; i < n; i++ {
		c := config{width: widths[r.Intn(len(widths))], global: 256 * 1024, dynamic: r.Intn(8) != 0}
		if r.Intn(3) == 0 {
			c.width = 8
		}
		c.mode = uio.SizeEstimationMode(r.Intn(3))
		if r.Intn(3) == 0 {
			c.fmode = os.FileMode(0o755)
		}
		if r.Intn(3) == 0 {
			c.mtime = time.Unix(int64(1700000000+r.Intn(1000)), int64(r.Intn(2)*500))
		}
		c.v1 = r.Intn(4) == 0
		// final set
		k := 1 + r.Intn(12)
		final := map[string]int{}
		if r.Intn(3) == 0 { // colliding names: deep shards
			bits := lg2(c.width) * (1 + r.Intn(3))
			if bits > 28 {
				bits = 28
			}
			if gs := collidingGroups(sorted, bits); len(gs) > 0 {
				for _, s := range gs[r.Intn(len(gs))] {
					if len(final) < 4 {
						final[s] = r.Intn(len(p.nodes))
					}
				}
			}
		}
		for len(final) < k {
			final[randName(r)] = r.Intn(len(p.nodes))
		}
		var extras []string
		for j := 0; j < 4; j++ {
			extras = append(extras, randName(r))
		}
		// where the boundary lies
		size := sizeOf(c, final, p)
		switch r.Intn(6) {
		case 0: // maxLinks at the final count
			c.maxLinks = len(final) + r.Intn(3) - 1
			if c.maxLinks < 0 {
				c.maxLinks = 0
			}
			if r.Intn(2) == 0 {
				c.thresh = size + r.Intn(60)
			}
		case 1: // global threshold
			c.global = size + r.Intn(7) - 3
			if c.global < 0 {
				c.global = 0
			}
		default: // per-directory threshold
			c.thresh = size + r.Intn(7) - 3
			if r.Intn(4) == 0 {
				c.thresh = size + r.Intn(41) - 20
			}
			if c.thresh < 1 {
				c.thresh = 1
			}
			if r.Intn(5) == 0 {
				c.maxLinks = len(final) + r.Intn(4)
			}
		}
		if c.mode == uio.SizeEstimationDisabled && c.maxLinks == 0 {
			c.maxLinks = len(final) + r.Intn(3) - 1
			if c.maxLinks < 1 {
				c.maxLinks = 1
			}
		}
		// the empty directory must not itself be above the threshold (stated hypothesis of the theorems)
		if c.mode == uio.SizeEstimationBlock {
			if c.thresh > 0 && c.thresh < c.dsz() {
				c.thresh = c.dsz()
			}
			if c.thresh == 0 && c.global > 0 && c.global < c.dsz() {
				c.global = c.dsz()
			}
		}
		tag := "random"
		if !c.dynamic {
			tag = "random-pure-hamt"
		}
		eds := genHistory(r, final, extras, len(p.nodes), 45)
		if c.maxLinks == 0 && r.Intn(3) == 0 { // re-open the directory at random points
			for k := 1 + r.Intn(3); k > 0; k-- {
				at := r.Intn(len(eds) + 1)
				eds = append(eds[:at], append([]edit{reloadEdit}, eds[at:]...)...)
			}
			tag += "+reload"
		}
		emit(c, eds, tag)
	}
	// ---- build, persist, re-open, shrink: multi-level shards with small sub-shards ----
	nr := e.Pick(90, 900)
	for i := 0; i < nr; i++ {
		c := config{width: []int{8, 8, 16, 32, 256}[r.Intn(5)], global: 256 * 1024, dynamic: r.Intn(2) == 0}
		c.mode = uio.SizeEstimationMode(r.Intn(2))
		c.v1 = r.Intn(4) == 0
		if r.Intn(3) == 0 {
			c.fmode = os.FileMode(0o755)
		}
		nf, ne := 4+r.Intn(30), 3+r.Intn(16)
		final := map[string]int{}
		var all []string
		seen := map[string]bool{}
		for len(all) < nf+ne {
			var s string
			if r.Intn(3) == 0 {
				s = fmt.Sprintf("k%d", r.Intn(5000))
			} else {
				s = randName(r)
			}
			if !seen[s] {
				seen[s] = true
				all = append(all, s)
			}
		}
		for _, s := range all[:nf] {
			final[s] = r.Intn(len(p.nodes))
		}
		if c.dynamic { // a threshold the final set stays above (HAMT throughout the shrinking) or just crosses
			c.thresh = sizeOf(c, final, p) - r.Intn(40) + 10
			if c.thresh < 1 {
				c.thresh = 1
			}
			if c.mode == uio.SizeEstimationBlock && c.thresh < c.dsz() {
				c.thresh = c.dsz()
			}
		}
		var eds []edit
		order := append([]string(nil), all...)
		r.Shuffle(len(order), func(a, b int) { order[a], order[b] = order[b], order[a] })
		for _, s := range order {
			vi, ok := final[s]
			if !ok {
				vi = r.Intn(len(p.nodes))
			}
			eds = append(eds, edit{add: true, name: s, vi: vi})
		}
		eds = append(eds, reloadEdit)
		drop := append([]string(nil), all[nf:]...)
		r.Shuffle(len(drop), func(a, b int) { drop[a], drop[b] = drop[b], drop[a] })
		for _, s := range drop {
			eds = append(eds, edit{name: s})
			if r.Intn(8) == 0 {
				eds = append(eds, reloadEdit)
			}
		}
		tag := "reload-shrink"
		if !c.dynamic {
			tag = "reload-shrink-pure-hamt"
		}
		emit(c, eds, tag)
	}
	cs.Close()
	st.Write(e)
}
