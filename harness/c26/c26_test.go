// Correspondence harness for C26 (IPNS record creation / encoding / validation
// round trip): records are created with the real ipns.NewRecord for the four key
// types over boundary sequence numbers, expiries, TTLs, metadata maps and option
// sets, marshalled, unmarshalled, read through every accessor and validated; the
// inputs, what libp2p / the Go time package say independently (signatures verify,
// peer ID, RFC3339Nano text), and what boxo answered are written into cases_*.v.
// Coq recomputes the whole marshalled record from the inputs with the model
// (model/M_C26.v: createNode + dag-cbor + protobuf envelope) — byte-exact — and
// checks the round-trip specification on what boxo answered.
package c26

import (
	"bytes"
	"crypto/rand"
	"encoding/hex"
	"errors"
	"fmt"
	"math"
	"math/big"
	mrand "math/rand"
	"strings"
	"testing"
	"time"

	"github.com/ipfs/boxo/ipns"
	ipns_pb "github.com/ipfs/boxo/ipns/pb"
	"github.com/ipfs/boxo/path"
	"github.com/ipld/go-ipld-prime/codec/dagcbor"
	"github.com/ipld/go-ipld-prime/datamodel"
	basicnode "github.com/ipld/go-ipld-prime/node/basic"
	ic "github.com/libp2p/go-libp2p/core/crypto"
	"github.com/libp2p/go-libp2p/core/peer"
	mh "github.com/multiformats/go-multihash"
	"google.golang.org/protobuf/proto"

	"verif/harness/vh"
)

// B renders a byte string as a Coq list of Z; long runs of one byte are written
// as (rep x n) (M_C26.rep), which keeps the 10 KiB boundary records cheap to parse.
func B(b []byte) string {
	if len(b) < 96 {
		return vh.Bytes(b)
	}
	var parts []string
	lit := 0
	flush := func(end int) {
		if end > lit {
			parts = append(parts, vh.Bytes(b[lit:end]))
		}
	}
	for i := 0; i < len(b); {
		j := i
		for j < len(b) && b[j] == b[i] {
			j++
		}
		if j-i >= 48 {
			flush(i)
			parts = append(parts, fmt.Sprintf("rep %d %d", b[i], j-i))
			lit = j
		}
		i = j
	}
	flush(len(b))
	if len(parts) == 1 && !strings.HasPrefix(parts[0], "rep ") {
		return parts[0]
	}
	return "(" + strings.Join(parts, " ++ ") + ")"
}

// ---------- keys (generated once per run; RSA is slow) ----------

type keyPair struct {
	kind   string
	sk     ic.PrivKey
	pk     ic.PubKey
	pkb    []byte
	pid    peer.ID
	name   ipns.Name
	inline bool
	digest []byte
	skHex  string
}

func mkKey(t *testing.T, kind string) keyPair {
	var sk ic.PrivKey
	var pk ic.PubKey
	var err error
	switch kind {
	case "ed25519":
		sk, pk, err = ic.GenerateEd25519Key(rand.Reader)
	case "secp256k1":
		sk, pk, err = ic.GenerateSecp256k1Key(rand.Reader)
	case "ecdsa":
		sk, pk, err = ic.GenerateECDSAKeyPair(rand.Reader)
	case "rsa":
		sk, pk, err = ic.GenerateRSAKeyPair(2048, rand.Reader)
	}
	if err != nil {
		t.Fatal(err)
	}
	pkb, err := ic.MarshalPublicKey(pk)
	if err != nil {
		t.Fatal(err)
	}
	pid, err := peer.IDFromPublicKey(pk)
	if err != nil {
		t.Fatal(err)
	}
	dec, err := mh.Decode([]byte(pid))
	if err != nil {
		t.Fatal(err)
	}
	skb, _ := ic.MarshalPrivateKey(sk)
	return keyPair{kind: kind, sk: sk, pk: pk, pkb: pkb, pid: pid, name: ipns.NameFromPeer(pid),
		inline: dec.Code == mh.IDENTITY, digest: dec.Digest, skHex: hex.EncodeToString(skb)}
}

func (k keyPair) nameCoq() string {
	if k.inline {
		return vh.App("NInline", B(k.digest))
	}
	return vh.App("NHash", B(k.digest))
}

// ---------- metadata ----------

type mval struct {
	kind string // string bytes int64 int bool nil other
	s    string
	b    []byte
	i    int64
	t    bool
	o    any
}

func (m mval) goValue() any {
	switch m.kind {
	case "string":
		return m.s
	case "bytes":
		return m.b
	case "int64":
		return m.i
	case "int":
		return int(m.i)
	case "bool":
		return m.t
	case "nil":
		return nil
	}
	return m.o
}
func (m mval) coq() string {
	switch m.kind {
	case "string":
		return vh.App("MString", B([]byte(m.s)))
	case "bytes":
		return vh.App("MBytes", B(m.b))
	case "int64", "int":
		return vh.App("MInt", vh.Z(m.i))
	case "bool":
		return vh.App("MBool", vh.Bool(m.t))
	case "nil":
		return "MNil"
	}
	return "MOther"
}

type metaEntry struct {
	k string
	v mval
}

var intPool = []int64{0, 1, -1, 23, 24, -24, -25, 255, 256, -256, -257, 65535, 65536, -65536, -65537,
	1<<32 - 1, 1 << 32, -(1 << 32), -(1<<32 + 1), math.MaxInt64, math.MinInt64, 1700000000}

var keyPool = []string{"_a", "_meta", "x", "TTK", "TTM", "Valud", "Valuf", "value", "Sequencd", "Sequencf", "ValidityTypd",
	"ValidityTypf", "Validitx", "Validitz", "_thirty_characters_long_key_xx", "_k\xff", "_é", "ttl", "UUL", "A", "_ab", "_ac"}

func genMeta(r *mrand.Rand, n int) []metaEntry {
	used := map[string]bool{}
	var out []metaEntry
	for len(out) < n {
		k := keyPool[r.Intn(len(keyPool))]
		if r.Intn(6) == 0 {
			k = "_" + strings.Repeat("k", 21+r.Intn(5)) // around the 23/24 head boundary
		}
		if used[k] {
			continue
		}
		used[k] = true
		var v mval
		switch r.Intn(5) {
		case 0:
			s := []string{"", "hello", "ümläut", "bad\xffutf8", strings.Repeat("s", 23), strings.Repeat("s", 24), strings.Repeat("t", 255), strings.Repeat("t", 256)}[r.Intn(8)]
			v = mval{kind: "string", s: s}
		case 1:
			b := [][]byte{nil, {}, {0}, {255, 0, 128}, bytes.Repeat([]byte{7}, 23), bytes.Repeat([]byte{7}, 24), bytes.Repeat([]byte{9}, 255), bytes.Repeat([]byte{9}, 256)}[r.Intn(8)]
			v = mval{kind: "bytes", b: b}
		case 2:
			i := intPool[r.Intn(len(intPool))]
			if r.Intn(4) == 0 {
				i = int64(r.Uint64())
			}
			v = mval{kind: "int64", i: i}
		case 3:
			v = mval{kind: "int", i: intPool[r.Intn(len(intPool))]}
		case 4:
			v = mval{kind: "bool", t: r.Intn(2) == 0}
		}
		out = append(out, metaEntry{k, v})
	}
	return out
}

func metaCoq(m []metaEntry) string {
	return vh.ListOf(m, func(e metaEntry) string { return vh.Pair(B([]byte(e.k)), e.v.coq()) })
}

// ---------- inputs ----------

type inputs struct {
	key     keyPair
	value   string
	seq     uint64
	eolSec  int64
	eolNsec int64
	ttl     int64
	v1      int // 0 default, 1 true, 2 false
	embed   int // 0 default, 1 true, 2 false
	meta    []metaEntry
}

func (in inputs) eolBig() *big.Int {
	b := new(big.Int).Mul(big.NewInt(in.eolSec), big.NewInt(1_000_000_000))
	return b.Add(b, big.NewInt(in.eolNsec))
}
func (in inputs) coq() string {
	embed := "None"
	if in.embed != 0 {
		embed = "(Some " + vh.Bool(in.embed == 1) + ")"
	}
	return vh.App("mkInputs", B([]byte(in.value)), vh.ZU(in.seq), vh.ZBig(in.eolBig()), vh.Z(in.ttl),
		vh.Bool(in.v1 != 2), embed, metaCoq(in.meta))
}
func (in inputs) opts() []ipns.Option {
	var o []ipns.Option
	if in.v1 != 0 {
		o = append(o, ipns.WithV1Compatibility(in.v1 == 1))
	}
	if in.embed != 0 {
		o = append(o, ipns.WithPublicKey(in.embed == 1))
	}
	if in.meta != nil {
		m := map[string]any{}
		for _, e := range in.meta {
			m[e.k] = e.v.goValue()
		}
		o = append(o, ipns.WithMetadata(m))
	}
	return o
}
func (in inputs) replay() map[string]any {
	meta := make([]string, len(in.meta))
	for i, e := range in.meta {
		c := e.v.coq()
		if len(c) > 400 {
			c = fmt.Sprintf("%s...(%d chars; kind %s, %d bytes)", c[:60], len(c), e.v.kind, len(e.v.b)+len(e.v.s))
		}
		meta[i] = fmt.Sprintf("%q=%s", e.k, c)
	}
	value := in.value
	if len(value) > 400 {
		value = fmt.Sprintf("%s...(%d bytes)", value[:60], len(value))
	}
	return map[string]any{"key": in.key.kind, "sk_hex": in.key.skHex, "value": value, "seq": fmt.Sprint(in.seq),
		"eol": fmt.Sprintf("%d.%09d", in.eolSec, in.eolNsec), "ttl": in.ttl, "v1": in.v1, "embed": in.embed, "meta": meta}
}

var values = []string{
	"/ipfs/bafkqaaa",
	"/ipfs/QmYwAPJzv5CZsnA625s3Xf2nemtYgPpHdWEz79ojWnPbdG",
	"/ipfs/bafybeigdyrzt5sfp7udm7hu76uh7y26nf3efuylqabf3oclgtqy55fbzdi/a/b.txt",
	"/ipns/k51qzi5uqu5dgutdk6i1ynyzgkqngpha5xpgia3a5qqp4jsh0u4csozksxel2r",
	"/ipfs/bafkqaaa/" + strings.Repeat("d", 240),
}
var seqs = []uint64{0, 1, 2, 23, 24, 255, 256, 1<<32 - 1, 1 << 32, 1<<63 - 1, 1 << 63, 1<<63 + 1, 1<<64 - 2, 1<<64 - 1}
var ttls = []int64{0, 1, 1000000000, 300000000000, 172800000000000, math.MaxInt64, -1, -300000000000, math.MinInt64}
var nsecs = []int64{0, 1, 10, 120000000, 500000000, 999999999, 999999990, 100, 123456789}

const (
	sec2100 = 4102444800   // 2100-01-01T00:00:00Z
	sec9999 = 253402300799 // 9999-12-31T23:59:59Z
)

func genInputs(r *mrand.Rand, keys []keyPair) (inputs, bool) {
	in := inputs{}
	switch x := r.Intn(20); {
	case x < 8:
		in.key = keys[0]
	case x < 12:
		in.key = keys[1]
	case x < 16:
		in.key = keys[2]
	default:
		in.key = keys[3]
	}
	in.value = values[r.Intn(len(values))]
	in.seq = seqs[r.Intn(len(seqs))]
	if r.Intn(4) == 0 {
		in.seq = r.Uint64()
	}
	future := r.Intn(10) != 0
	if future {
		switch r.Intn(4) {
		case 0:
			in.eolSec = sec9999
		case 1:
			in.eolSec = sec2100
		default:
			in.eolSec = sec2100 + r.Int63n(sec9999-sec2100)
		}
	} else {
		in.eolSec = []int64{0, 1, 946684800, 978307199, -1, -62135596800}[r.Intn(6)] // up to 2000-12-31; year 1; before the epoch
	}
	in.eolNsec = nsecs[r.Intn(len(nsecs))]
	if r.Intn(3) == 0 {
		in.eolNsec = r.Int63n(1_000_000_000)
	}
	in.ttl = ttls[r.Intn(len(ttls))]
	if r.Intn(4) == 0 {
		in.ttl = r.Int63()
	}
	in.v1 = r.Intn(3)
	in.embed = r.Intn(3)
	if r.Intn(3) != 0 {
		in.meta = genMeta(r, r.Intn(5))
		if in.meta == nil {
			in.meta = []metaEntry{}
		}
	}
	return in, future
}

func classify(err error) string {
	switch {
	case err == nil:
		return "(Ok tt)"
	case errors.Is(err, ipns.ErrRecordSize):
		return "(Err ERecordSize)"
	case errors.Is(err, ipns.ErrSignature):
		return "(Err ESignature)"
	case errors.Is(err, ipns.ErrPublicKeyMismatch):
		return "(Err EPkMismatch)"
	case errors.Is(err, ipns.ErrInvalidPublicKey):
		return "(Err EInvalidPk)"
	case errors.Is(err, ipns.ErrPublicKeyNotFound):
		return "(Err EPkNotFound)"
	case errors.Is(err, peer.ErrNoPublicKey):
		return "(Err ENoPk)"
	case errors.Is(err, ipns.ErrExpiredRecord):
		return "(Err EExpired)"
	case errors.Is(err, ipns.ErrUnrecognizedValidity):
		return "(Err EUnrecValidity)"
	case errors.Is(err, ipns.ErrInvalidValidity):
		return "(Err EInvalidValidity)"
	case errors.Is(err, ipns.ErrInvalidName):
		return "(Err EInvalidName)"
	case errors.Is(err, ipns.ErrInvalidRecord):
		return "(Err EInvalidRecord)"
	}
	return "(Err EOther)"
}

func metaValCoq(mv ipns.MetadataValue, err error) string {
	if err != nil {
		return "None"
	}
	switch mv.Kind() {
	case ipns.MetadataKindString:
		s, _ := mv.AsString()
		return "(Some " + vh.App("CText", B([]byte(s))) + ")"
	case ipns.MetadataKindBytes:
		b, _ := mv.AsBytes()
		return "(Some " + vh.App("CBytes", B(b)) + ")"
	case ipns.MetadataKindInt:
		i, err := mv.AsInt()
		if err != nil {
			return "(Some (CBig 0))"
		}
		return "(Some " + vh.App("CInt", vh.Z(i)) + ")"
	case ipns.MetadataKindBool:
		b, _ := mv.AsBool()
		return "(Some " + vh.App("CBool", vh.Bool(b)) + ")"
	}
	return "(Some (CBig 1))"
}

func instantCoq(t time.Time, err error) string {
	if err != nil {
		return "None"
	}
	b := new(big.Int).Mul(big.NewInt(t.Unix()), big.NewInt(1_000_000_000))
	b.Add(b, big.NewInt(int64(t.Nanosecond())))
	return "(Some " + vh.ZBig(b) + ")"
}

// ---------- dag-cbor encoder tie ----------

func cvalCoq(kind int, s string, b []byte, i int64, t bool) (string, datamodel.Node) {
	switch kind {
	case 0:
		return vh.App("CText", B([]byte(s))), basicnode.NewString(s)
	case 1:
		return vh.App("CBytes", B(b)), basicnode.NewBytes(b)
	case 2:
		return vh.App("CInt", vh.Z(i)), basicnode.NewInt(i)
	}
	return vh.App("CBool", vh.Bool(t)), basicnode.NewBool(t)
}

func TestC26(t *testing.T) {
	e := vh.Load(t)
	r := e.Rng
	st := vh.NewStats("ipns.NewRecord for Ed25519/secp256k1/ECDSA/RSA-2048 keys over sequence numbers {0,1,2^32±,2^63-1,2^63,2^64-1,random}, " +
		"expiries 2100..9999-12-31T23:59:59.999999999Z (and past ones) with nanosecond patterns, TTL classes incl. negative/MaxInt64/MinInt64, " +
		"metadata of every supported kind with keys that sort around the reserved keys, ±v1 compatibility, ±embedded key; " +
		"marshal, unmarshal, every accessor, ValidateWithName/Validator.Validate/Validate; plus bad-metadata creations and raw dag-cbor encodings; " +
		"non-trivial = has metadata or seq >= 2^63 or non-zero nanoseconds; distinct by inputs (keys are fresh per run)")
	cs := vh.NewCases(e, "From V Require Import lib.CborScalar lib.Ipns model.M_C26.\nOpen Scope Z_scope.", "case", "check_case", 40)

	keys := []keyPair{mkKey(t, "ed25519"), mkKey(t, "secp256k1"), mkKey(t, "ecdsa"), mkKey(t, "rsa")}

	runNew := func(in inputs, future bool) {
		p, err := path.NewPath(in.value)
		if err != nil {
			t.Fatalf("bad value path %q: %v", in.value, err)
		}
		eol := time.Unix(in.eolSec, in.eolNsec)
		rec, err := ipns.NewRecord(in.key.sk, p, in.seq, eol, time.Duration(in.ttl), in.opts()...)
		if err != nil {
			cls := ""
			switch {
			case errors.Is(err, ipns.ErrMetadataEmptyKey):
				cls = "NEmptyKey"
			case errors.Is(err, ipns.ErrMetadataConflict):
				cls = "NConflict"
			case errors.Is(err, ipns.ErrMetadataUnsupportedType):
				cls = "NUnsupported"
			case errors.Is(err, ipns.ErrInvalidRecord):
				cls = "NInvalid"
			default:
				t.Fatalf("NewRecord failed with an unclassified error: %v (%v)", err, in.replay())
			}
			cs.Add(vh.App("CNewErr", in.coq(), cls), in.replay())
			st.Case("E|"+in.coq(), true)
			st.Count("create-error:" + cls)
			return
		}
		raw, err := ipns.MarshalRecord(rec)
		if err != nil {
			t.Fatalf("MarshalRecord: %v", err)
		}
		// what libp2p / time say, independently of boxo
		var pb ipns_pb.IpnsRecord
		if err := proto.Unmarshal(raw, &pb); err != nil {
			t.Fatalf("created record is not protobuf: %v", err)
		}
		validity := eol.UTC().Format(time.RFC3339Nano)
		parsed, perr := time.Parse(time.RFC3339Nano, validity)
		v2ok, _ := in.key.pk.Verify(append([]byte("ipns-signature:"), pb.GetData()...), pb.GetSignatureV2())
		v1ok := true
		if pb.SignatureV1 != nil {
			msg := append(append(append([]byte{}, pb.GetValue()...), pb.GetValidity()...), []byte("EOL")...)
			v1ok, _ = in.key.pk.Verify(msg, pb.GetSignatureV1())
		}
		sha := []byte{}
		if !in.key.inline {
			sha = in.key.digest
		}
		oracle := vh.App("mkOracle", B(in.key.pkb), in.key.nameCoq(), B(sha), B([]byte(validity)),
			instantCoq(parsed, perr), B(pb.GetSignatureV1()), B(pb.GetSignatureV2()), B(pb.GetData()),
			vh.Bool(v2ok), vh.Bool(v1ok))

		// what boxo answers after a marshal/unmarshal round trip
		rec2, err := ipns.UnmarshalRecord(raw)
		if err != nil {
			// Coq decides: allowed only strictly above MaxRecordSize, and then with ErrRecordSize everywhere
			rp := in.replay()
			rp["raw_len"] = len(raw)
			rp["unmarshal"] = classify(err)
			if len(raw) <= 2048 {
				rp["raw_hex"] = hex.EncodeToString(raw)
			}
			cs.Add(vh.App("CNewBig", in.coq(), oracle, B(raw), classify(err),
				classify(ipns.Validator{}.Validate(string(in.key.name.RoutingKey()), raw)),
				classify(ipns.Validate(rec, in.key.pk))), rp)
			st.Case("B|"+in.coq(), true)
			st.Count(fmt.Sprintf("unmarshal-refused:len=%d", len(raw)))
			return
		}
		value := "None"
		if v, err := rec2.Value(); err == nil {
			value = "(Some " + B([]byte(v.String())) + ")"
		}
		seq := "None"
		if s, err := rec2.Sequence(); err == nil {
			seq = "(Some " + vh.ZU(s) + ")"
		}
		ttl := "None"
		if d, err := rec2.TTL(); err == nil {
			ttl = "(Some " + vh.Z(int64(d)) + ")"
		}
		metas := make([]string, len(in.meta))
		for i, me := range in.meta {
			metas[i] = metaValCoq(rec2.Metadata(me.k))
			if rec2.MetadataExists(me.k) != (metas[i] != "None") {
				st.Violate("MetadataExists disagrees with Metadata", "", in.replay())
			}
		}
		count := 0
		for range rec2.MetadataEntries() {
			count++
		}
		_, pkErr := rec2.PubKey()
		errVWN := ipns.ValidateWithName(rec2, in.key.name)
		errVV := ipns.Validator{}.Validate(string(in.key.name.RoutingKey()), raw)
		errVK := ipns.Validate(rec2, in.key.pk)
		obs := vh.App("mkObs", B(raw), value, seq, instantCoq(rec2.Validity()), ttl, vh.List(metas),
			metaValCoq(rec2.Metadata("Sequence")), vh.Z(int64(count)), vh.Bool(pkErr == nil),
			classify(errVWN), classify(errVV), classify(errVK))
		rp := in.replay()
		rp["raw_len"] = len(raw)
		if len(raw) <= 2048 {
			rp["raw_hex"] = hex.EncodeToString(raw)
		}
		cs.Add(vh.App("CNew", in.coq(), vh.Bool(future), oracle, obs), rp)
		st.Case("N|"+in.coq(), len(in.meta) > 0 || in.seq >= 1<<63 || in.eolNsec != 0)
		st.Count("key:" + in.key.kind)
		st.Count(fmt.Sprintf("v1=%d embed=%d", in.v1, in.embed))
		st.Count(fmt.Sprintf("meta=%d", len(in.meta)))
		if !future {
			st.Count("expired")
		}
		st.Sample(rp, 4)
	}

	// ---- corpus ----
	base := inputs{key: keys[0], value: values[0], seq: 1, eolSec: sec2100, ttl: 300000000000}
	with := func(f func(in *inputs)) inputs { in := base; f(&in); return in }
	corpus := []inputs{
		base,
		with(func(in *inputs) { in.seq = 1<<64 - 1; in.eolSec = sec9999; in.eolNsec = 999999999 }),
		with(func(in *inputs) { in.seq = 1 << 63; in.eolNsec = 120000000; in.ttl = -1 }),
		with(func(in *inputs) { in.key = keys[3]; in.seq = 1<<63 - 1 }),
		with(func(in *inputs) { in.key = keys[3]; in.embed = 2 }),               // RSA without the key: cannot validate by name
		with(func(in *inputs) { in.key = keys[3]; in.v1 = 2; in.embed = 1 }),    //
		with(func(in *inputs) { in.key = keys[2]; in.v1 = 2 }),                  // ECDSA
		with(func(in *inputs) { in.key = keys[1]; in.embed = 1; in.ttl = math.MaxInt64 }),
		with(func(in *inputs) { in.key = keys[0]; in.embed = 1; in.ttl = math.MinInt64 }),
		with(func(in *inputs) {
			in.meta = []metaEntry{{"_a", mval{kind: "string", s: "x"}}, {"TTK", mval{kind: "int64", i: -1}}, {"UUL", mval{kind: "bool", t: true}},
				{"Valud", mval{kind: "bytes", b: []byte{1, 2}}}, {"ValidityTypf", mval{kind: "int", i: 24}}}
		}),
		with(func(in *inputs) { in.meta = []metaEntry{} }),
	}
	for _, in := range corpus {
		runNew(in, true)
	}
	// ---- the size boundary: marshalled size exactly MaxRecordSize-1, MaxRecordSize, MaxRecordSize+1 ----
	// The padding (a metadata byte string, or the tail of the value path) is found by
	// trial: create, measure, adjust (signature lengths vary for ECDSA/secp256k1).
	sized := func(k keyPair, v1 int, padValue bool, target int) (inputs, bool) {
		salt := uint64(0)
		mk := func(n int) inputs {
			in := base
			// the salt changes the signed message (and so the length of a DER signature)
			// without changing the size of anything else
			in.key, in.v1, in.seq, in.eolNsec = k, v1, 1<<63+7+salt, 123456789
			if padValue {
				in.value = "/ipfs/bafkqaaa/" + strings.Repeat("p", n)
				in.meta = []metaEntry{{"_note", mval{kind: "string", s: "limit"}}}
			} else {
				in.meta = []metaEntry{{"_pad", mval{kind: "bytes", b: bytes.Repeat([]byte{0xAB}, n)}}, {"_note", mval{kind: "string", s: "limit"}}}
			}
			return in
		}
		n := 9000
		if padValue && v1 != 2 {
			n = 4500 // the value is stored twice in a v1-compatible record
		}
		for try := 0; try < 60; try++ {
			if try%4 == 3 {
				salt++ // deterministic DER signatures can make the search cycle; perturb the message
			}
			in := mk(n)
			p, err := path.NewPath(in.value)
			if err != nil {
				t.Fatal(err)
			}
			rec, err := ipns.NewRecord(in.key.sk, p, in.seq, time.Unix(in.eolSec, in.eolNsec), time.Duration(in.ttl), in.opts()...)
			if err != nil {
				t.Fatal(err)
			}
			raw, err := ipns.MarshalRecord(rec)
			if err != nil {
				t.Fatal(err)
			}
			d := target - len(raw)
			if d == 0 {
				return in, true
			}
			if padValue && v1 != 2 {
				if d%2 != 0 && try > 20 {
					return in, false // parity cannot be reached with a doubled value
				}
				if d/2 == 0 {
					n += d // +-1: try anyway, signature length may differ next time
				} else {
					n += d / 2
				}
			} else {
				n += d
			}
		}
		return inputs{}, false
	}
	// runNew creates the record again; with randomised signature lengths the size
	// may move by a byte or two, which only shifts the case to a neighbouring size.
	for _, k := range []keyPair{keys[0], keys[3], keys[1], keys[2]} {
		for _, v1 := range []int{0, 2} {
			for _, target := range []int{ipns.MaxRecordSize - 1, ipns.MaxRecordSize, ipns.MaxRecordSize + 1} {
				padValue := v1 == 2 && (k.kind == "ed25519" || k.kind == "ecdsa")
				if !e.Thorough() && (k.kind == "secp256k1" || k.kind == "ecdsa") && target != ipns.MaxRecordSize {
					continue
				}
				if in, ok := sized(k, v1, padValue, target); ok {
					runNew(in, true)
					st.Count(fmt.Sprintf("size-boundary:%s v1=%d", k.kind, v1))
				} else if k.kind == "ed25519" || k.kind == "rsa" {
					t.Fatalf("could not pad a %s record (v1=%d) to %d bytes", k.kind, v1, target) // fixed-length signatures: must converge
				} else {
					st.Count("size-boundary:not-reached")
				}
			}
		}
	}
	// bad metadata: exactly one bad entry next to good ones
	bad := []metaEntry{
		{"", mval{kind: "string", s: "x"}},
		{"Value", mval{kind: "string", s: "x"}}, {"Validity", mval{kind: "int64", i: 1}}, {"ValidityType", mval{kind: "int64", i: 0}},
		{"Sequence", mval{kind: "int64", i: 9}}, {"TTL", mval{kind: "bool", t: true}},
		{"_nil", mval{kind: "nil"}},
		{"_f", mval{kind: "other", o: 1.5}}, {"_u", mval{kind: "other", o: uint64(7)}}, {"_l", mval{kind: "other", o: []string{"a"}}},
		{"_i32", mval{kind: "other", o: int32(7)}}, {"_st", mval{kind: "other", o: struct{}{}}},
	}
	for i, b := range bad {
		in := base
		in.key = keys[i%4]
		good := genMeta(r, r.Intn(3))
		var meta []metaEntry
		for _, g := range good {
			if g.k != b.k {
				meta = append(meta, g)
			}
		}
		pos := r.Intn(len(meta) + 1)
		meta = append(meta[:pos:pos], append([]metaEntry{b}, meta[pos:]...)...)
		in.meta = meta
		runNew(in, true)
	}

	// ---- generated ----
	n := e.Pick(330, 2500)
	for i := 0; i < n; i++ {
		in, future := genInputs(r, keys)
		runNew(in, future)
	}

	// ---- raw dag-cbor encodings: Go's encoder vs the Coq encoder, byte-exact ----
	nc := e.Pick(120, 600)
	for i := 0; i < nc; i++ {
		ne := r.Intn(7)
		used := map[string]bool{}
		var terms []string
		nb := basicnode.Prototype__Map{}.NewBuilder()
		ma, _ := nb.BeginMap(int64(ne))
		for len(terms) < ne {
			var k string
			switch r.Intn(4) {
			case 0:
				k = keyPool[r.Intn(len(keyPool))]
			case 1:
				k = []string{"Value", "Validity", "ValidityType", "Sequence", "TTL"}[r.Intn(5)]
			case 2:
				k = strings.Repeat("k", []int{0, 1, 23, 24, 25, 255, 256}[r.Intn(7)])
			default:
				b := make([]byte, 1+r.Intn(4))
				r.Read(b)
				k = string(b)
			}
			if used[k] {
				continue
			}
			used[k] = true
			kind := r.Intn(4)
			s := strings.Repeat("v", []int{0, 1, 23, 24, 255, 256, 300}[r.Intn(7)])
			b := bytes.Repeat([]byte{byte(r.Intn(256))}, []int{0, 1, 23, 24, 255, 256, 300}[r.Intn(7)])
			iv := intPool[r.Intn(len(intPool))]
			if r.Intn(3) == 0 {
				iv = int64(r.Uint64())
			}
			ct, node := cvalCoq(kind, s, b, iv, r.Intn(2) == 0)
			terms = append(terms, vh.Pair(B([]byte(k)), ct))
			if err := ma.AssembleKey().AssignString(k); err != nil {
				t.Fatal(err)
			}
			if err := ma.AssembleValue().AssignNode(node); err != nil {
				t.Fatal(err)
			}
		}
		if err := ma.Finish(); err != nil {
			t.Fatal(err)
		}
		var buf bytes.Buffer
		if err := dagcbor.Encode(nb.Build(), &buf); err != nil {
			t.Fatal(err)
		}
		cs.Add(vh.App("CCbor", vh.List(terms), B(buf.Bytes())), map[string]any{"kind": "dag-cbor", "entries": terms, "enc_hex": hex.EncodeToString(buf.Bytes())})
		st.Case("C|"+strings.Join(terms, ";"), ne >= 2)
		st.Count("dag-cbor-case")
	}
	cs.Close()
	st.Write(e)
}
