// Correspondence harness for C01 (blockstore/blockstore.go, blockstore/idstore.go,
// datastore/dshelp/key.go): random histories of Put/PutMany/Delete/Get/Has/
// GetSize/View/AllKeysChan over a pool of blocks addressable through aliasing
// CIDs are run against the real blockstore on top of a recording datastore; the
// answers, every datastore write issued per operation and the raw datastore
// content afterwards are written into cases_*.v and compared inside Coq with the
// model (model/M_C01.v) and with the multihash-map specification.
package c01

import (
	"bytes"
	"context"
	"fmt"
	"path/filepath"
	"sort"
	"strconv"
	"strings"
	"testing"

	"github.com/ipfs/boxo/blockstore"
	dshelp "github.com/ipfs/boxo/datastore/dshelp"
	blocks "github.com/ipfs/go-block-format"
	cid "github.com/ipfs/go-cid"
	ds "github.com/ipfs/go-datastore"
	dsq "github.com/ipfs/go-datastore/query"
	dssync "github.com/ipfs/go-datastore/sync"
	ipld "github.com/ipfs/go-ipld-format"
	mh "github.com/multiformats/go-multihash"

	"verif/harness/vh"
)

// ---------- recording datastore ----------

type write struct {
	kind string // put del bput bdel commit
	key  string
	val  []byte
}

type recDS struct {
	inner ds.Batching
	log   []write
}

func (r *recDS) Get(ctx context.Context, k ds.Key) ([]byte, error) { return r.inner.Get(ctx, k) }
func (r *recDS) Has(ctx context.Context, k ds.Key) (bool, error)   { return r.inner.Has(ctx, k) }
func (r *recDS) GetSize(ctx context.Context, k ds.Key) (int, error) {
	return r.inner.GetSize(ctx, k)
}
func (r *recDS) Query(ctx context.Context, q dsq.Query) (dsq.Results, error) {
	return r.inner.Query(ctx, q)
}
func (r *recDS) Put(ctx context.Context, k ds.Key, v []byte) error {
	r.log = append(r.log, write{"put", k.String(), append([]byte{}, v...)})
	return r.inner.Put(ctx, k, v)
}
func (r *recDS) Delete(ctx context.Context, k ds.Key) error {
	r.log = append(r.log, write{"del", k.String(), nil})
	return r.inner.Delete(ctx, k)
}
func (r *recDS) Sync(ctx context.Context, k ds.Key) error { return r.inner.Sync(ctx, k) }
func (r *recDS) Close() error                             { return r.inner.Close() }
func (r *recDS) Batch(ctx context.Context) (ds.Batch, error) {
	b, err := r.inner.Batch(ctx)
	if err != nil {
		return nil, err
	}
	return &recBatch{r: r, b: b}, nil
}

type recBatch struct {
	r *recDS
	b ds.Batch
}

func (b *recBatch) Put(ctx context.Context, k ds.Key, v []byte) error {
	b.r.log = append(b.r.log, write{"bput", k.String(), append([]byte{}, v...)})
	return b.b.Put(ctx, k, v)
}
func (b *recBatch) Delete(ctx context.Context, k ds.Key) error {
	b.r.log = append(b.r.log, write{"bdel", k.String(), nil})
	return b.b.Delete(ctx, k)
}
func (b *recBatch) Commit(ctx context.Context) error {
	b.r.log = append(b.r.log, write{"commit", "", nil})
	return b.b.Commit(ctx)
}

// a Viewer the idstore can find below itself: Get + callback
type viewerBS struct{ blockstore.Blockstore }

func (v viewerBS) View(ctx context.Context, c cid.Cid, cb func([]byte) error) error {
	b, err := v.Get(ctx, c)
	if err != nil {
		return err
	}
	return cb(b.RawData())
}

// ---------- dictionary: byte strings emitted by name ----------

type dict struct {
	names map[string]string
	defs  []string
}

func (d *dict) add(name string, b []byte) {
	if _, ok := d.names[string(b)]; ok {
		return
	}
	d.names[string(b)] = name
	d.defs = append(d.defs, "Definition "+name+" : bytes := "+lit(b)+".")
}
func lit(b []byte) string {
	items := make([]string, len(b))
	for i, x := range b {
		items[i] = strconv.Itoa(int(x))
	}
	return "[" + strings.Join(items, ";") + "]"
}
func (d *dict) ref(b []byte) string {
	if n, ok := d.names[string(b)]; ok {
		return n
	}
	return lit(b)
}

// ---------- pool ----------

type pcid struct {
	c    cid.Cid
	name string // Coq name of the cid
	pay  int    // payload index the CID is the honest address of
	form string
	isID bool
}

type pool struct {
	pays [][]byte
	cids [][]pcid // per payload
	all  []pcid
}

func mustSum(data []byte, code uint64) mh.Multihash {
	h, err := mh.Sum(data, code, -1)
	if err != nil {
		panic(err)
	}
	return h
}

func buildPool(e *vh.Env, d *dict) (*pool, []string) {
	r := e.Rng
	p := &pool{}
	sizes := []int{0, 1, 2, 5, 9, 3, 130, 7}
	for i, n := range sizes {
		b := make([]byte, n)
		r.Read(b)
		if i == 1 {
			b[0] = 0 // a one-byte payload 0x00
		}
		p.pays = append(p.pays, b)
		d.add(fmt.Sprintf("d%d", i), b)
	}
	var defs []string
	for i, pay := range p.pays {
		sha := mustSum(pay, mh.SHA2_256)
		bl := mustSum(pay, mh.BLAKE2B_MIN+31)
		idh := mustSum(pay, mh.IDENTITY)
		forms := []struct {
			form string
			c    cid.Cid
			id   bool
		}{
			{"v0", cid.NewCidV0(sha), false},
			{"v1pb", cid.NewCidV1(cid.DagProtobuf, sha), false},
			{"v1raw", cid.NewCidV1(cid.Raw, sha), false},
			{"v1b2", cid.NewCidV1(cid.Raw, bl), false},
			{"idraw", cid.NewCidV1(cid.Raw, idh), true},
			{"idpb", cid.NewCidV1(cid.DagProtobuf, idh), true},
		}
		var row []pcid
		for j, f := range forms {
			name := fmt.Sprintf("c%d_%d", i, j)
			h := []byte(f.c.Hash())
			d.add(fmt.Sprintf("m%d_%d", i, j), h)
			defs = append(defs, fmt.Sprintf("Definition %s : cid := Cid %d %d %s.", name, f.c.Version(), f.c.Type(), d.ref(h)))
			pc := pcid{c: f.c, name: name, pay: i, form: f.form, isID: f.id}
			row = append(row, pc)
			p.all = append(p.all, pc)
			// what the real key mapping / enumeration will produce for this multihash
			d.add(fmt.Sprintf("r%d_%d", i, j), cid.NewCidV1(cid.Raw, f.c.Hash()).Bytes())
		}
		p.cids = append(p.cids, row)
	}
	return p, defs
}

// dsKey is only used to pre-fill the dictionary of byte strings that are emitted
// by name (a compression of the cases file: every name is defined as a literal).
func dsKey(c cid.Cid) string { return dshelp.MultihashToDsKey(c.Hash()).String() }

// ---------- observation rendering ----------

func resOf(err error) string {
	switch {
	case err == nil:
		return "ROk"
	case ipld.IsNotFound(err):
		return "RNotFound"
	}
	return "RErr"
}

func (d *dict) writes(ws []write) string {
	items := make([]string, len(ws))
	for i, w := range ws {
		switch w.kind {
		case "put":
			items[i] = vh.App("WPut", d.ref([]byte(w.key)), d.ref(w.val))
		case "bput":
			items[i] = vh.App("WBPut", d.ref([]byte(w.key)), d.ref(w.val))
		case "del", "bdel":
			items[i] = vh.App("WDel", d.ref([]byte(w.key)))
		default:
			items[i] = "WCommit"
		}
	}
	return vh.List(items)
}

type config struct{ wt, noprefix, id, viewer bool }

func (c config) coq() string {
	return vh.App("Cfg", vh.Bool(c.wt), vh.Bool(c.noprefix), vh.Bool(c.id), vh.Bool(c.viewer))
}
func (c config) String() string {
	return fmt.Sprintf("wt=%v noprefix=%v id=%v viewer=%v", c.wt, c.noprefix, c.id, c.viewer)
}

type blk struct {
	pc   pcid
	data int // payload index of the bytes (== pc.pay when honest)
}

type opr struct {
	kind string // put putmany delete get getundef has size view allkeys
	pc   pcid
	data int
	bl   []blk
}

func (o opr) coq() string {
	switch o.kind {
	case "put":
		return vh.App("OPut", o.pc.name, fmt.Sprintf("d%d", o.data))
	case "putmany":
		return vh.App("OPutMany", vh.ListOf(o.bl, func(b blk) string { return "(" + b.pc.name + ", " + fmt.Sprintf("d%d", b.data) + ")" }))
	case "delete":
		return vh.App("ODelete", o.pc.name)
	case "get":
		return vh.App("OGet", o.pc.name)
	case "getundef":
		return "OGetUndef"
	case "has":
		return vh.App("OHas", o.pc.name)
	case "size":
		return vh.App("OGetSize", o.pc.name)
	case "view":
		return vh.App("OView", o.pc.name)
	}
	return "OAllKeys"
}
func (o opr) short() string {
	switch o.kind {
	case "put":
		return fmt.Sprintf("put(%s<-d%d)", o.pc.name, o.data)
	case "putmany":
		parts := make([]string, len(o.bl))
		for i, b := range o.bl {
			parts[i] = fmt.Sprintf("%s<-d%d", b.pc.name, b.data)
		}
		return "putmany(" + strings.Join(parts, ",") + ")"
	case "getundef", "allkeys":
		return o.kind
	}
	return o.kind + "(" + o.pc.name + ")"
}

// runHistory executes ops on a fresh real blockstore and renders the case.
func runHistory(t *testing.T, d *dict, p *pool, c config, seed [][2][]byte, ops []opr) (term string, final int) {
	ctx := context.Background()
	inner := dssync.MutexWrap(ds.NewMapDatastore())
	for _, kv := range seed {
		if err := inner.Put(ctx, ds.RawKey(string(kv[0])), kv[1]); err != nil {
			t.Fatal(err)
		}
	}
	rec := &recDS{inner: inner}
	var opts []blockstore.Option
	if c.wt {
		opts = append(opts, blockstore.WriteThrough(true))
	}
	if c.noprefix {
		opts = append(opts, blockstore.NoPrefix())
	}
	var bs blockstore.Blockstore = blockstore.NewBlockstore(rec, opts...)
	if c.id {
		if c.viewer {
			bs = viewerBS{bs}
		}
		bs = blockstore.NewIdStore(bs)
	}
	mk := func(b blk) blocks.Block {
		x, err := blocks.NewBlockWithCid(p.pays[b.data], b.pc.c)
		if err != nil {
			t.Fatal(err)
		}
		return x
	}
	obs := make([]string, 0, len(ops))
	for _, o := range ops {
		rec.log = nil
		var ob string
		switch o.kind {
		case "put":
			ob = vh.App("BDone", resOf(bs.Put(ctx, mk(blk{o.pc, o.data}))))
		case "putmany":
			bl := make([]blocks.Block, len(o.bl))
			for i, b := range o.bl {
				bl[i] = mk(b)
			}
			ob = vh.App("BDone", resOf(bs.PutMany(ctx, bl)))
		case "delete":
			ob = vh.App("BDone", resOf(bs.DeleteBlock(ctx, o.pc.c)))
		case "get", "getundef":
			k := o.pc.c
			if o.kind == "getundef" {
				k = cid.Undef
			}
			b, err := bs.Get(ctx, k)
			var data []byte
			if err == nil {
				data = b.RawData()
				if !b.Cid().Equals(k) {
					// the block handed out must carry the CID that was asked for
					return "", -1
				}
			}
			ob = vh.App("BData", resOf(err), d.ref(data))
		case "has":
			h, err := bs.Has(ctx, o.pc.c)
			ob = vh.App("BHas", resOf(err), vh.Bool(h))
		case "size":
			n, err := bs.GetSize(ctx, o.pc.c)
			ob = vh.App("BSize", resOf(err), "("+strconv.Itoa(n)+")%Z")
		case "view":
			var data []byte
			calls := 0
			err := bs.(blockstore.Viewer).View(ctx, o.pc.c, func(b []byte) error {
				calls++
				data = append([]byte{}, b...)
				return nil
			})
			if (err == nil) != (calls == 1) {
				return "", -1
			}
			ob = vh.App("BData", resOf(err), d.ref(data))
		case "allkeys":
			ch, err := bs.AllKeysChan(ctx)
			var ks [][]byte
			if err == nil {
				for k := range ch {
					ks = append(ks, k.Bytes())
				}
			}
			sort.Slice(ks, func(i, j int) bool { return bytes.Compare(ks[i], ks[j]) < 0 })
			ob = vh.App("BKeys", resOf(err), vh.ListOf(ks, d.ref))
		}
		obs = append(obs, "("+ob+", "+d.writes(rec.log)+")")
	}
	// raw content of the datastore afterwards
	res, err := inner.Query(ctx, dsq.Query{})
	if err != nil {
		t.Fatal(err)
	}
	ents, err := res.Rest()
	if err != nil {
		t.Fatal(err)
	}
	sort.Slice(ents, func(i, j int) bool { return ents[i].Key < ents[j].Key })
	fin := vh.ListOf(ents, func(e dsq.Entry) string { return "(" + d.ref([]byte(e.Key)) + ", " + d.ref(e.Value) + ")" })
	ini := vh.ListOf(seed, func(kv [2][]byte) string { return "(" + d.ref(kv[0]) + ", " + d.ref(kv[1]) + ")" })
	opsCoq := vh.ListOf(ops, func(o opr) string { return o.coq() })
	return vh.App("Case", c.coq(), ini, opsCoq, vh.List(obs), fin), len(ents)
}

// ---------- generator ----------

func genOps(e *vh.Env, p *pool, c config, n int, dishonest bool) []opr {
	r := e.Rng
	// a working set of payloads so that histories revisit the same entries
	ws := r.Perm(len(p.pays))[:2+r.Intn(4)]
	pick := func() pcid {
		row := p.cids[ws[r.Intn(len(ws))]]
		if !c.id && r.Intn(3) != 0 {
			return row[r.Intn(4)] // mostly non-identity forms without the wrapper (identity is then an ordinary key)
		}
		return row[r.Intn(len(row))]
	}
	data := func(pc pcid) int {
		if dishonest && r.Intn(3) == 0 {
			return r.Intn(len(p.pays))
		}
		return pc.pay
	}
	ops := make([]opr, 0, n)
	for len(ops) < n {
		pc := pick()
		switch x := r.Intn(100); {
		case x < 18:
			ops = append(ops, opr{kind: "put", pc: pc, data: data(pc)})
		case x < 28:
			k := []int{0, 1, 2, 2, 3, 4, 6}[r.Intn(7)]
			bl := make([]blk, k)
			for i := range bl {
				q := pick()
				if i > 0 && r.Intn(4) == 0 {
					q = p.cids[bl[i-1].pc.pay][r.Intn(6)] // an alias of the previous block in the same batch
				}
				bl[i] = blk{q, data(q)}
			}
			ops = append(ops, opr{kind: "putmany", bl: bl})
		case x < 40:
			ops = append(ops, opr{kind: "delete", pc: pc})
		case x < 58:
			ops = append(ops, opr{kind: "get", pc: pc})
		case x < 60:
			ops = append(ops, opr{kind: "getundef"})
		case x < 72:
			ops = append(ops, opr{kind: "has", pc: pc})
		case x < 82:
			ops = append(ops, opr{kind: "size", pc: pc})
		case x < 92:
			if c.id {
				ops = append(ops, opr{kind: "view", pc: pc})
			} else {
				ops = append(ops, opr{kind: "get", pc: pc})
			}
		default:
			ops = append(ops, opr{kind: "allkeys"})
		}
	}
	return ops
}

// nontrivial: the history contains a delete, and a read (get/has/size/view) of a
// block through a CID different from the one it was put under earlier.
func nontrivial(ops []opr) bool {
	hasDel := false
	putAs := map[int]map[string]bool{} // payload-addressed entry -> cid names it was put under
	alias := false
	note := func(b blk) {
		key := b.pc.pay*2 + map[bool]int{false: 0, true: 1}[b.pc.form == "v1b2"]
		if b.pc.isID {
			return
		}
		if putAs[key] == nil {
			putAs[key] = map[string]bool{}
		}
		putAs[key][b.pc.name] = true
	}
	for _, o := range ops {
		switch o.kind {
		case "delete":
			hasDel = true
		case "put":
			note(blk{o.pc, o.data})
		case "putmany":
			for _, b := range o.bl {
				note(b)
			}
		case "get", "has", "size", "view":
			key := o.pc.pay*2 + map[bool]int{false: 0, true: 1}[o.pc.form == "v1b2"]
			if m := putAs[key]; m != nil && !o.pc.isID && !m[o.pc.name] {
				alias = true
			}
		}
	}
	return hasDel && alias
}

func TestC01(t *testing.T) {
	e := vh.Load(t)
	st := vh.NewStats("histories of Put/PutMany/Delete/Get/Get(Undef)/Has/GetSize/View/AllKeysChan on the real blockstore " +
		"(all WriteThrough x NoPrefix combinations, with/without NewIdStore, with/without a Viewer below it) over a recording " +
		"datastore; pool of 8 payloads (incl. empty, 1 byte, 130 bytes) x {CIDv0, v1 dag-pb, v1 raw, v1 raw blake2b-256, identity raw, identity dag-pb}; " +
		"one third of the histories store dishonest blocks (bytes that do not belong to the CID); one sixth start from a datastore seeded with foreign keys (other spellings, undecodable, outside the namespace); non-trivial = contains a delete and a read " +
		"through an alias CID of an earlier put; distinct by (config, ops)")
	d := &dict{names: map[string]string{}}
	p, cidDefs := buildPool(e, d)
	// key texts the real key mapping produces for the pool, with and without the namespace
	for _, pc := range p.all {
		k := "/" + strings.TrimPrefix(dsKey(pc.c), "/")
		d.add("k_"+pc.name, []byte(k))
		d.add("kb_"+pc.name, []byte("/blocks"+k))
	}
	pre := "From V Require Import lib.BaseN model.M_C01.\nOpen Scope N_scope.\n" + strings.Join(d.defs, "\n") + "\n" + strings.Join(cidDefs, "\n") + "\n"
	cs := vh.NewCases(e, pre, "case", "check_case", 200)

	configs := []config{}
	for _, wt := range []bool{false, true} {
		for _, np := range []bool{false, true} {
			configs = append(configs, config{wt, np, false, false}, config{wt, np, true, false}, config{wt, np, true, true})
		}
	}
	emit := func(c config, seed [][2][]byte, ops []opr, kind string) {
		term, fin := runHistory(t, d, p, c, seed, ops)
		shorts := make([]string, len(ops))
		for i, o := range ops {
			shorts[i] = o.short()
		}
		rp := map[string]any{"config": c.String(), "ops": strings.Join(shorts, " "), "kind": kind}
		if fin < 0 {
			st.Violate("Get/View handed out a block under a different CID than requested, or View's callback/error contract broke", "", rp)
			return
		}
		cs.Add(term, rp)
		st.Case(c.String()+"|"+strings.Join(shorts, " "), nontrivial(ops))
		st.Count("kind=" + kind)
		st.Count(fmt.Sprintf("config id=%v wt=%v noprefix=%v", c.id, c.wt, c.noprefix))
		for _, o := range ops {
			st.Count("op=" + o.kind)
		}
		st.Sample(rp, 4)
	}

	// corpus: hand-written boundary histories, on every configuration
	c0 := func(i, j int) pcid { return p.cids[i][j] }
	corpus := [][]opr{
		// alias put/get/delete, empty block
		{{kind: "put", pc: c0(0, 0), data: 0}, {kind: "get", pc: c0(0, 2)}, {kind: "size", pc: c0(0, 1)}, {kind: "allkeys"},
			{kind: "delete", pc: c0(0, 1)}, {kind: "has", pc: c0(0, 0)}, {kind: "get", pc: c0(0, 2)}, {kind: "size", pc: c0(0, 0)}},
		// existence check vs write-through with a dishonest second put
		{{kind: "put", pc: c0(3, 2), data: 3}, {kind: "put", pc: c0(3, 0), data: 4}, {kind: "get", pc: c0(3, 1)},
			{kind: "delete", pc: c0(3, 2)}, {kind: "put", pc: c0(3, 0), data: 4}, {kind: "get", pc: c0(3, 2)}},
		// PutMany: 0, 1, 2 blocks, duplicates inside a batch, batch after a put
		{{kind: "putmany", bl: nil}, {kind: "putmany", bl: []blk{{c0(2, 2), 2}}}, {kind: "putmany", bl: []blk{{c0(2, 0), 5}}},
			{kind: "putmany", bl: []blk{{c0(2, 1), 2}, {c0(4, 3), 4}, {c0(4, 3), 5}, {c0(5, 0), 5}, {c0(5, 2), 1}}},
			{kind: "get", pc: c0(2, 2)}, {kind: "get", pc: c0(4, 3)}, {kind: "get", pc: c0(5, 1)}, {kind: "allkeys"}},
		// identity CIDs: put/has/get/size/view/delete, in batches, next to ordinary blocks
		{{kind: "has", pc: c0(4, 4)}, {kind: "get", pc: c0(4, 5)}, {kind: "size", pc: c0(6, 4)}, {kind: "put", pc: c0(4, 4), data: 4},
			{kind: "putmany", bl: []blk{{c0(4, 4), 4}, {c0(1, 2), 1}}}, {kind: "putmany", bl: []blk{{c0(0, 4), 0}, {c0(6, 5), 6}}},
			{kind: "putmany", bl: []blk{{c0(0, 4), 0}, {c0(6, 5), 6}, {c0(7, 2), 7}, {c0(3, 3), 3}}},
			{kind: "allkeys"}, {kind: "delete", pc: c0(4, 4)}, {kind: "get", pc: c0(4, 4)}, {kind: "get", pc: c0(0, 5)},
			{kind: "has", pc: c0(1, 0)}, {kind: "delete", pc: c0(1, 1)}, {kind: "has", pc: c0(1, 2)}, {kind: "getundef"}},
		// sha2-256 and blake2b of the same bytes are different entries
		{{kind: "put", pc: c0(7, 3), data: 7}, {kind: "has", pc: c0(7, 2)}, {kind: "put", pc: c0(7, 1), data: 7}, {kind: "delete", pc: c0(7, 3)},
			{kind: "get", pc: c0(7, 0)}, {kind: "get", pc: c0(7, 3)}, {kind: "allkeys"}},
	}
	for _, c := range configs {
		for _, ops := range corpus {
			ops2 := make([]opr, 0, len(ops)+2)
			for _, o := range ops {
				ops2 = append(ops2, o)
				if c.id && (o.kind == "get") {
					ops2 = append(ops2, opr{kind: "view", pc: o.pc})
				}
			}
			emit(c, nil, ops2, "corpus")
		}
	}

	n := e.Pick(700, 2500)
	maxLen := e.Pick(40, 400)
	if strings.HasPrefix(filepath.Base(e.Out), "search") {
		// the driver's search for a concrete failing input after a break: many short histories
		n, maxLen = 1500, 40
	}
	for i := 0; i < n; i++ {
		c := configs[e.Rng.Intn(len(configs))]
		l := 1 + e.Rng.Intn(maxLen)
		if e.Thorough() && e.Rng.Intn(4) != 0 {
			l = 1 + e.Rng.Intn(60)
		}
		dishonest := i%3 == 2
		kind := "honest"
		if dishonest {
			kind = "dishonest"
		}
		var seed [][2][]byte
		if i%6 == 5 {
			// a datastore that already holds entries the blockstore did not write: keys of pool blocks (as written by
			// another blockstore instance), their lower-case spelling (the key reader is case-insensitive), keys that
			// cannot be decoded, partial base32 groups, keys outside the namespace
			kind = "seeded"
			pre := "/blocks"
			if c.noprefix {
				pre = ""
			}
			for k := 1 + e.Rng.Intn(4); k > 0; k-- {
				pc := p.all[e.Rng.Intn(len(p.all))]
				good := "/" + strings.TrimPrefix(dsKey(pc.c), "/")
				var key string
				switch e.Rng.Intn(9) {
				case 0, 1:
					key = pre + good
				case 2:
					key = pre + strings.ToLower(good)
				case 3:
					key = pre + good[:len(good)-1-e.Rng.Intn(3)]
				case 4:
					key = pre + "/" + []string{"A", "AB", "ABC", "MZXW6", "MZXW6Y", "abc!", "0189", "AAAAAAAAA", "AB/CD", "=A"}[e.Rng.Intn(10)]
				case 5:
					key = "/other" + good
				case 6:
					key = "/blocksx" + good
				case 7:
					key = pre + good + "A"
				default:
					key = "/blocks" + good // inside "/blocks" even when the blockstore runs without prefix
				}
				dup := false
				for _, kv := range seed {
					dup = dup || string(kv[0]) == key
				}
				if !dup {
					seed = append(seed, [2][]byte{[]byte(key), p.pays[e.Rng.Intn(len(p.pays))]})
				}
			}
		}
		emit(c, seed, genOps(e, p, c, l, dishonest), kind)
	}
	cs.Close()
	st.Write(e)
}
