// Correspondence harness for C33 (path/resolver): random UnixFS trees (basic and
// HAMT-sharded directories of several widths, files, raw leaves, symlinks, empty
// directories; depth <= 4) are written to an offline block service over a blockstore that refuses requests on a cancelled context (as bitswap / remote stores do); every existing
// path, a wrong segment at every position of it, near-miss names and paths that
// continue below a file are resolved with the real resolver (block-service fetcher,
// UnixFS reifier — the gateway's configuration) through ResolveToLastNode,
// ResolvePath and ResolvePathComponents.  The answers go into cases_*.v, where Coq
// compares them with the model (M_C33) and with successive lookup in the tree.
package c33

import (
	"context"
	"errors"
	"fmt"
	"strings"
	"testing"

	"github.com/ipfs/boxo/blockservice"
	"github.com/ipfs/boxo/blockstore"
	offline "github.com/ipfs/boxo/exchange/offline"
	bsfetcher "github.com/ipfs/boxo/fetcher/impl/blockservice"
	"github.com/ipfs/boxo/ipld/merkledag"
	ft "github.com/ipfs/boxo/ipld/unixfs"
	"github.com/ipfs/boxo/ipld/unixfs/hamt"
	"github.com/ipfs/boxo/path"
	"github.com/ipfs/boxo/path/resolver"
	blocks "github.com/ipfs/go-block-format"
	"github.com/ipfs/go-cid"
	ds "github.com/ipfs/go-datastore"
	dssync "github.com/ipfs/go-datastore/sync"
	ipld "github.com/ipfs/go-ipld-format"
	"github.com/ipfs/go-unixfsnode"
	dagpb "github.com/ipld/go-codec-dagpb"
	cidlink "github.com/ipld/go-ipld-prime/linking/cid"

	"verif/harness/vh"
)

// ---------- trees ----------
type tnode struct {
	kind    string // file raw symlink dir hamt
	width   int
	names   []string
	kids    []*tnode
	node    ipld.Node
	id      uint64
	payload int
}

func (n *tnode) isDir() bool { return n.kind == "dir" || n.kind == "hamt" }

type world struct {
	ctx context.Context
	ds  ipld.DAGService
	r   resolver.Resolver
	ids map[string]uint64
}

func (w *world) idOf(c cid.Cid) uint64 {
	k := c.KeyString()
	if id, ok := w.ids[k]; ok {
		return id
	}
	id := uint64(len(w.ids) + 1)
	w.ids[k] = id
	return id
}

func (w *world) lookupID(c cid.Cid) uint64 {
	if id, ok := w.ids[c.KeyString()]; ok {
		return id
	}
	return 0 // a CID that is no node of the tree
}

type gen struct {
	e *vh.Env
	w *world
}

func (g *gen) n(k int) int       { return g.e.Rng.Intn(k) }
func (g *gen) chance(k int) bool { return g.e.Rng.Intn(k) == 0 }

const nameChars = "abcdefghijklmnopqrstuvwxyz0123456789"

func (g *gen) name() string {
	switch g.n(12) {
	case 0:
		return []string{"0", "1", "10", "007", "-1"}[g.n(5)] // what ParsePathSegment could take for an index
	case 1:
		return []string{"a b", "x.y", "...", "-", "_", "A", "index.html", "Links", "Hash", "Data"}[g.n(10)]
	}
	k := 1 + g.n(4)
	b := make([]byte, k)
	for i := range b {
		b[i] = nameChars[g.n(len(nameChars))]
	}
	return string(b)
}

func (g *gen) must(err error) {
	if err != nil {
		panic(err)
	}
}

func (g *gen) leaf() *tnode {
	t := &tnode{payload: g.n(4)}
	data := []byte(fmt.Sprintf("payload-%d", t.payload))
	switch g.n(6) {
	case 0:
		t.kind = "raw"
		t.node = merkledag.NewRawNode(data)
	case 1:
		t.kind = "symlink"
		b, err := ft.SymlinkData("target-" + string(data))
		g.must(err)
		t.node = merkledag.NodeWithData(b)
	default:
		t.kind = "file"
		t.node = merkledag.NodeWithData(ft.FilePBData(data, uint64(len(data))))
	}
	g.must(g.w.ds.Add(g.w.ctx, t.node))
	t.id = g.w.idOf(t.node.Cid())
	return t
}

// budget bounds the number of nodes of one tree (the Coq term grows with it)
func (g *gen) tree(depth int, budget *int) *tnode {
	if depth == 0 || *budget <= 0 || g.chance(3) {
		*budget--
		return g.leaf()
	}
	t := &tnode{}
	nEntries := g.n(6)
	if g.chance(2) {
		t.kind = "hamt"
		t.width = []int{8, 8, 8, 16, 16, 32, 64, 256}[g.n(8)]
		nEntries = 1 + g.n(7)
		if g.chance(2) {
			nEntries = 12 + g.n(30) // several levels of shards at the small widths: names live in child shard blocks
		}
	} else {
		t.kind = "dir"
	}
	used := map[string]bool{}
	var shared *tnode
	for i := 0; i < nEntries; i++ {
		nm := g.name()
		if t.kind == "hamt" && nEntries > 8 {
			nm = fmt.Sprintf("n%d", i)
		}
		if used[nm] && (t.kind == "hamt" || !g.chance(3)) {
			continue // unique names; a basic directory sometimes keeps a duplicate (first one wins)
		}
		used[nm] = true
		var kid *tnode
		if nEntries > 8 && i%5 != 0 {
			if shared == nil {
				shared = g.leaf()
			}
			kid = shared // a wide directory mostly points at one file
		} else {
			*budget--
			kid = g.tree(depth-1, budget)
		}
		t.names = append(t.names, nm)
		t.kids = append(t.kids, kid)
	}
	switch t.kind {
	case "dir":
		nd := ft.EmptyDirNode()
		for i, nm := range t.names {
			g.must(nd.AddNodeLink(nm, t.kids[i].node))
		}
		t.node = nd
	case "hamt":
		sh, err := hamt.NewShard(g.w.ds, t.width)
		g.must(err)
		for i, nm := range t.names {
			g.must(sh.Set(g.w.ctx, nm, t.kids[i].node))
		}
		nd, err := sh.Node()
		g.must(err)
		t.node = nd
	}
	g.must(g.w.ds.Add(g.w.ctx, t.node))
	t.id = g.w.idOf(t.node.Cid())
	return t
}

func coqStr(s string) string {
	v, ok := vh.Str(s)
	if !ok {
		panic("non-printable name")
	}
	return v
}

func (t *tnode) coq() string {
	if !t.isDir() {
		return vh.App("Leaf", vh.N(t.id), vh.Bool(t.kind != "symlink"))
	}
	items := make([]string, len(t.names))
	for i, nm := range t.names {
		items[i] = vh.Pair(coqStr(nm), t.kids[i].coq())
	}
	return vh.App("Dir", vh.N(t.id), vh.Bool(t.kind == "hamt"), vh.List(items))
}

func (t *tnode) child(name string) *tnode {
	for i, nm := range t.names {
		if nm == name {
			return t.kids[i]
		}
	}
	return nil
}

// ---------- paths ----------
func (g *gen) wrongName(dir *tnode) string {
	for {
		var nm string
		switch {
		case len(dir.names) > 0 && g.chance(2): // near miss of an existing name
			base := dir.names[g.n(len(dir.names))]
			switch g.n(4) {
			case 0:
				nm = base + "x"
			case 1:
				nm = base[:len(base)-1]
			case 2:
				nm = strings.ToUpper(base)
			default:
				nm = base + base
			}
		default:
			nm = g.name()
		}
		if nm == "" || nm == "." || nm == ".." || strings.Contains(nm, "/") {
			continue
		}
		if !dir.isDir() || dir.child(nm) == nil {
			return nm
		}
	}
}

// allPaths lists existing paths (at most perDir entries of a wide directory)
func (g *gen) allPaths(t *tnode, prefix []string, perDir int, out *[][]string) {
	*out = append(*out, append([]string{}, prefix...))
	if !t.isDir() {
		return
	}
	idx := make([]int, len(t.names))
	for i := range idx {
		idx[i] = i
	}
	if len(idx) > perDir {
		g.e.Rng.Shuffle(len(idx), func(a, b int) { idx[a], idx[b] = idx[b], idx[a] })
		idx = idx[:perDir]
	}
	seen := map[string]bool{}
	for _, i := range idx {
		if seen[t.names[i]] {
			continue
		}
		seen[t.names[i]] = true
		first := t.child(t.names[i]) // a duplicate name resolves to the first entry
		g.allPaths(first, append(prefix, t.names[i]), perDir, out)
	}
}

func (t *tnode) walkTo(segs []string) *tnode {
	cur := t
	for _, s := range segs {
		if cur == nil || !cur.isDir() {
			return nil
		}
		cur = cur.child(s)
	}
	return cur
}

type observation struct {
	Segs  []string `json:"segs"`
	Last  string   `json:"resolve_to_last_node"`
	Path  string   `json:"resolve_path"`
	Comps int      `json:"resolve_path_components"`
	coq   string
	class string
}

func (w *world) observe(root *tnode, segs []string) (observation, bool) {
	p, err := path.NewPath("/ipfs/" + root.node.Cid().String() + "/" + strings.Join(segs, "/"))
	if len(segs) == 0 {
		p, err = path.NewPath("/ipfs/" + root.node.Cid().String())
	}
	if err != nil {
		return observation{}, false
	}
	ip, err := path.NewImmutablePath(p)
	if err != nil {
		return observation{}, false
	}
	if got := ip.Segments()[2:]; strings.Join(got, "\x00") != strings.Join(segs, "\x00") {
		return observation{}, false // the path package normalised the segments: not the path we meant
	}
	o := observation{Segs: segs}
	c, rem, err := w.r.ResolveToLastNode(w.ctx, ip)
	var last string
	var nl *resolver.ErrNoLink
	switch {
	case err == nil:
		last = vh.App("ROk", vh.N(w.lookupID(c)), vh.ListOf(rem, coqStr))
		o.Last, o.class = fmt.Sprintf("ok %s remainder=%v", c, rem), "ok"
	case errors.As(err, &nl):
		last = vh.App("RNoLink", coqStr(nl.Name), vh.N(w.lookupID(nl.Node)))
		o.Last, o.class = fmt.Sprintf("ErrNoLink name=%q node=%s", nl.Name, nl.Node), "nolink"
	default:
		last = "RErr"
		o.Last, o.class = "other error", "error"
	}
	_, lnk, err := w.r.ResolvePath(w.ctx, ip)
	pathT := "None"
	o.Path = "error"
	if err == nil {
		if cl, ok := lnk.(cidlink.Link); ok {
			pathT = "(Some " + vh.N(w.lookupID(cl.Cid)) + ")"
			o.Path = cl.Cid.String()
		}
	}
	nodes, err := w.r.ResolvePathComponents(w.ctx, ip)
	if err == nil {
		o.Comps = len(nodes)
	}
	o.coq = vh.App("Build_obs", vh.ListOf(segs, coqStr), last, pathT, vh.Nat(o.Comps))
	return o, true
}

// ctxBlockstore honours the request context the way bitswap or a remote store does:
// nothing is served on a context that is already done.  (A map datastore ignores the
// context, which hides every use of a cancelled traversal context by the resolver.)
type ctxBlockstore struct {
	blockstore.Blockstore
}

func (b ctxBlockstore) Get(ctx context.Context, c cid.Cid) (blocks.Block, error) {
	if err := ctx.Err(); err != nil {
		return nil, err
	}
	return b.Blockstore.Get(ctx, c)
}

func (b ctxBlockstore) GetSize(ctx context.Context, c cid.Cid) (int, error) {
	if err := ctx.Err(); err != nil {
		return 0, err
	}
	return b.Blockstore.GetSize(ctx, c)
}

func (b ctxBlockstore) Has(ctx context.Context, c cid.Cid) (bool, error) {
	if err := ctx.Err(); err != nil {
		return false, err
	}
	return b.Blockstore.Has(ctx, c)
}

func newWorld() *world {
	bstore := ctxBlockstore{blockstore.NewBlockstore(dssync.MutexWrap(ds.NewMapDatastore()))}
	bs := blockservice.New(bstore, offline.Exchange(bstore))
	fc := bsfetcher.NewFetcherConfig(bs)
	fc.PrototypeChooser = dagpb.AddSupportToChooser(bsfetcher.DefaultPrototypeChooser)
	return &world{ctx: context.Background(), ds: merkledag.NewDAGService(bs),
		r: resolver.NewBasicResolver(fc.WithReifier(unixfsnode.Reify)), ids: map[string]uint64{}}
}

func TestC33(t *testing.T) {
	e := vh.Load(t)
	st := vh.NewStats("random UnixFS trees (depth <= 4; basic directories and HAMT shards of width 8/16/32/64/256 with 1..41 entries; files, raw leaves, " +
		"symlinks, empty directories; numeric and odd names, duplicate names in basic directories); per tree: existing paths, one wrong segment " +
		"(fresh or near-miss name) at every position of each, tails after the wrong segment, paths continuing below a leaf; each resolved by " +
		"ResolveToLastNode, ResolvePath, ResolvePathComponents of the real resolver. non-trivial = a path of >= 2 segments, or any path through a " +
		"HAMT directory; distinct by (tree, path)")
	cs := vh.NewCases(e, "From V Require Import model.M_C33.\nOpen Scope string_scope.", "case", "check_case", 40)
	nTrees := e.Pick(70, 1500)
	for ti := 0; ti < nTrees; ti++ {
		w := newWorld()
		g := &gen{e: e, w: w}
		var root *tnode
		budget := 14 + g.n(30)
		switch ti {
		case 0: // corpus: the witness of finding C33-1 — a name below a file as the LAST segment
			f := g.leaf()
			for f.kind != "file" {
				f = g.leaf()
			}
			d := &tnode{kind: "dir", names: []string{"f"}, kids: []*tnode{f}}
			nd := ft.EmptyDirNode()
			g.must(nd.AddNodeLink("f", f.node))
			d.node = nd
			g.must(w.ds.Add(w.ctx, nd))
			d.id = w.idOf(nd.Cid())
			root = d
		case 1: // corpus: a wide sharded directory (child shard blocks) below a basic directory, as the parent of the last segment
			big := &tnode{kind: "hamt", width: 256}
			sh, err := hamt.NewShard(w.ds, 256)
			g.must(err)
			for i := 0; i < 400; i++ {
				nm := fmt.Sprintf("file-%03d", i)
				f := &tnode{kind: "file"}
				f.node = merkledag.NodeWithData(ft.FilePBData([]byte(nm), uint64(len(nm))))
				g.must(w.ds.Add(w.ctx, f.node))
				f.id = w.idOf(f.node.Cid())
				g.must(sh.Set(w.ctx, nm, f.node))
				big.names, big.kids = append(big.names, nm), append(big.kids, f)
			}
			bn, err := sh.Node()
			g.must(err)
			g.must(w.ds.Add(w.ctx, bn))
			big.node, big.id = bn, w.idOf(bn.Cid())
			d := &tnode{kind: "dir", names: []string{"big"}, kids: []*tnode{big}}
			nd := ft.EmptyDirNode()
			g.must(nd.AddNodeLink("big", bn))
			g.must(w.ds.Add(w.ctx, nd))
			d.node, d.id = nd, w.idOf(nd.Cid())
			root = d
		default:
			for root == nil || !root.isDir() {
				b := budget
				root = g.tree(1+g.n(4), &b)
			}
		}
		var existing [][]string
		g.allPaths(root, nil, 5, &existing)
		if len(existing) > 14 {
			g.e.Rng.Shuffle(len(existing)-1, func(a, b int) { existing[a+1], existing[b+1] = existing[b+1], existing[a+1] })
			existing = existing[:14]
		}
		var paths [][]string
		seen := map[string]bool{}
		add := func(p []string) {
			k := strings.Join(p, "\x00")
			if !seen[k] && len(paths) < 60 {
				seen[k] = true
				paths = append(paths, p)
			}
		}
		for _, p := range existing {
			add(p)
			// one wrong segment at every position (the segments before it exist)
			for pos := 0; pos <= len(p); pos++ {
				dir := root.walkTo(p[:pos])
				if dir == nil {
					continue
				}
				bad := g.wrongName(dir)
				q := append(append([]string{}, p[:pos]...), bad)
				if pos < len(p) && g.chance(2) {
					add(append(append([]string{}, q...), p[pos+1:]...)) // the rest of the path after the wrong name
				} else {
					add(q)
				}
				if g.chance(3) {
					add(append(append([]string{}, q...), g.name()))
				}
			}
		}
		if ti == 0 {
			paths = [][]string{{"f", "x"}, {"f", "x", "y"}, {"f"}, {"x"}, {}}
		}
		if ti == 1 {
			paths = [][]string{{"big"}, {"big", "no-such-file"}, {"big", "file-002", "x"}}
			for i := 0; i < 400; i += 9 {
				paths = append(paths, []string{"big", fmt.Sprintf("file-%03d", i)})
			}
		}
		var obsT []string
		var obsJ []observation
		hamtParent := func(p []string) bool { // the last segment is looked up in a sharded directory
			if len(p) == 0 {
				return false
			}
			d := root.walkTo(p[:len(p)-1])
			return d != nil && d.kind == "hamt"
		}
		hamtOnPath := func(p []string) bool {
			cur := root
			for _, s := range p {
				if cur == nil || !cur.isDir() {
					return false
				}
				if cur.kind == "hamt" {
					return true
				}
				cur = cur.child(s)
			}
			return false
		}
		for _, p := range paths {
			o, ok := w.observe(root, p)
			if !ok {
				st.Count("skipped-path")
				continue
			}
			obsT = append(obsT, o.coq)
			obsJ = append(obsJ, o)
			st.Case(fmt.Sprintf("%d|%s", ti, strings.Join(p, "/")), len(p) >= 2 || hamtOnPath(p))
			st.Count("answer/" + o.class)
			st.Count(fmt.Sprintf("segments=%d", len(p)))
			if hamtOnPath(p) {
				st.Count("through-hamt")
			}
			if hamtParent(p) {
				st.Count("last-segment-in-hamt/" + o.class)
				if d := root.walkTo(p[:len(p)-1]); len(d.names) > d.width {
					st.Count("last-segment-in-multi-level-hamt")
				}
			}
		}
		rp := map[string]any{"tree": root.coq(), "root": root.node.Cid().String(), "paths": obsJ}
		cs.Add(vh.App("CTree", root.coq(), vh.List(obsT)), rp)
		st.Count("trees")
		st.Sample(map[string]any{"tree": root.coq(), "paths": obsJ[:min(3, len(obsJ))]}, 4)
	}
	cs.Close()
	st.Write(e)
}
