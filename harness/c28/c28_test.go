// Correspondence harness for C28 (path, ipns/name.go): strings built from a fragment
// grammar (namespaces, CIDs in several bases, peer IDs, dots, repeated and trailing
// slashes, unicode, control bytes, URI schemes) are given to the real gopath.Clean /
// path.NewPath / path.NewPathFromURI; accepted paths are printed and parsed again.
// IPNS names of every supported key type are converted through all their forms and
// back.  Everything observed is written into cases_*.v and evaluated inside Coq
// against the model (model/M_C28.v) and the specification.
package c28

import (
	"bytes"
	"encoding/binary"
	"encoding/json"
	"errors"
	"fmt"
	gopath "path"
	"strings"
	"testing"

	"github.com/ipfs/boxo/ipns"
	"github.com/ipfs/boxo/path"
	"github.com/ipfs/go-cid"
	ci "github.com/libp2p/go-libp2p/core/crypto"
	"github.com/libp2p/go-libp2p/core/peer"
	mbase "github.com/multiformats/go-multibase"
	mh "github.com/multiformats/go-multihash"

	"verif/harness/vh"
)

// ---------- rendering ----------

func cstr(s string) string {
	printable := true
	for i := 0; i < len(s); i++ {
		if s[i] < 0x20 || s[i] > 0x7e {
			printable = false
			break
		}
	}
	if printable {
		return "(b \"" + strings.ReplaceAll(s, "\"", "\"\"") + "\")"
	}
	return vh.ListOf([]byte(s), func(c byte) string { return fmt.Sprint(int(c)) })
}

func cstrs(l []string) string { return vh.ListOf(l, cstr) }

type pres struct {
	OK   bool     `json:"ok"`
	Str  string   `json:"str,omitempty"`
	NS   string   `json:"ns,omitempty"`
	Segs []string `json:"segs,omitempty"`
	Cid  string   `json:"cid,omitempty"`
	Err  string   `json:"err,omitempty"`
}

func (r pres) coq() string {
	if !r.OK {
		return "(RErr " + r.Err + ")"
	}
	c := "None"
	if r.Cid != "" {
		c = "(Some " + cstr(r.Cid) + ")"
	}
	return fmt.Sprintf("(ROk %s %s %s %s)", cstr(r.Str), cstr(r.NS), cstrs(r.Segs), c)
}

func observe(p path.Path, err error) pres {
	if err != nil {
		switch {
		case errors.Is(err, path.ErrInsufficientComponents):
			return pres{Err: "EInsufficient"}
		case errors.Is(err, path.ErrUnknownNamespace):
			return pres{Err: "ENamespace"}
		}
		return pres{Err: "ECid"}
	}
	r := pres{OK: true, Str: p.String(), NS: p.Namespace(), Segs: p.Segments()}
	if ip, ok := p.(path.ImmutablePath); ok {
		r.Cid = ip.RootCid().String()
	}
	if r.Segs == nil {
		r.Segs = []string{}
	}
	return r
}

// cidTable is the decoder oracle: every '/'-separated piece of the given strings (and
// what follows a ':' inside a piece) that cid.Decode accepts, with the canonical text.
func cidTable(inputs ...string) string {
	seen := map[string]bool{}
	var items []string
	add := func(x string) {
		if seen[x] {
			return
		}
		seen[x] = true
		if c, err := cid.Decode(x); err == nil {
			items = append(items, "("+cstr(x)+", "+cstr(c.String())+")")
		}
	}
	for _, in := range inputs {
		for _, piece := range strings.Split(in, "/") {
			add(piece)
			if i := strings.IndexByte(piece, ':'); i >= 0 {
				add(piece[i+1:])
			}
		}
	}
	return vh.List(items)
}

func mbEnc(b byte) mbase.Encoding { return mbase.Encoding(b) }

func mustSha(data []byte) mh.Multihash {
	h, err := mh.Sum(data, mh.SHA2_256, -1)
	if err != nil {
		panic(err)
	}
	return h
}

// ---------- generator ----------

type gen struct {
	e     *vh.Env
	cids  []string
	names []string
}

func (g *gen) n(k int) int         { return g.e.Rng.Intn(k) }
func (g *gen) coin(p float64) bool { return g.e.Rng.Float64() < p }
func (g *gen) pick(l []string) string {
	return l[g.n(len(l))]
}

var (
	nsFrags   = []string{"ipfs", "ipfs", "ipfs", "ipns", "ipns", "ipld", "IPFS", "Ipns", "ipfsx", "ipf", "", "foo", ".", "..", "ipfs ", "ïpfs"}
	segFrags  = []string{"a", "b.txt", "dir", ".", "..", "", "...", "..a", ".hidden", "ü", "日本", "a b", "%2F", "\x00", "x\x7f", "a:b", "ipfs", "\"q\"", "\xff\xfe"}
	sepFrags  = []string{"/", "/", "/", "/", "//", "///", "/./", "/../"}
	preFrags  = []string{"/", "/", "/", "/", "/", "", "//", "./", "../", "/./", "/../", " /"}
	tailFrags = []string{"", "", "", "/", "/", "//", "/.", "/..", "/./", "/../", "/.//"}
	schemes   = []string{"ipfs", "ipns", "ipld", "IPFS", "IpNs", "iPLD", "ipfx", "http", "ipf", "ipfss", "Ipfs"}
)

func (g *gen) rootFrag() string {
	switch x := g.n(20); {
	case x < 9:
		return g.pick(g.cids)
	case x < 13:
		return g.pick(g.names)
	case x < 15:
		return g.pick([]string{"example.com", "en.wikipedia-on-ipfs.org", "localhost", "a.b.c."})
	case x < 16:
		c := g.pick(g.cids)
		return c[:len(c)-1-g.n(3)] // truncated CID
	case x < 17:
		return strings.ToUpper(g.pick(g.cids))
	default:
		return g.pick(segFrags)
	}
}

func (g *gen) body() string {
	var sb strings.Builder
	sb.WriteString(g.pick(nsFrags))
	sb.WriteString(g.pick(sepFrags))
	sb.WriteString(g.rootFrag())
	k := g.n(5)
	for i := 0; i < k; i++ {
		sb.WriteString(g.pick(sepFrags))
		sb.WriteString(g.pick(segFrags))
	}
	sb.WriteString(g.pick(tailFrags))
	return sb.String()
}

func (g *gen) pathString() string {
	switch x := g.n(40); {
	case x == 0:
		return g.pick([]string{"", "/", "//", ".", "..", "/.", "/..", "/ipfs", "/ipfs/", "/ipns//", "ipfs", "/ipfs/.", "/ipfs/..", "/ipfs/x/..", "/ipns/a/../..", "/../ipfs/" + g.cids[0], "/ipfs/../ipns/x"})
	case x < 4: // URI-shaped, through the general case as well
		return g.pick(schemes) + g.pick([]string{":", "://", ":/", ":///"}) + g.rootFrag() + g.pick(tailFrags)
	}
	if g.coin(0.65) { // mostly valid: the dirt is in the separators, segments and the tail
		ns := g.pick([]string{"ipfs", "ipfs", "ipns", "ipld"})
		var sb strings.Builder
		sb.WriteString(g.pick([]string{"/", "/", "/", "//", "/./", "/x/../"}))
		sb.WriteString(ns)
		sb.WriteString(g.pick([]string{"/", "/", "/", "//", "/./", "/y/../"}))
		if ns == "ipns" || g.coin(0.08) {
			sb.WriteString(g.rootFrag())
		} else {
			sb.WriteString(g.pick(g.cids))
		}
		k := g.n(6)
		for i := 0; i < k; i++ {
			sb.WriteString(g.pick(sepFrags))
			sb.WriteString(g.pick(segFrags))
		}
		sb.WriteString(g.pick(tailFrags))
		return sb.String()
	}
	return g.pick(preFrags) + g.body()
}

// ---------- the test ----------

func TestC28(t *testing.T) {
	e := vh.Load(t)
	g := &gen{e: e}
	st := vh.NewStats("strings from a fragment grammar (namespaces, CIDs in base32/base58/base36/upper-case, peer IDs, domains, '.', '..', " +
		"empty and repeated separators, trailing slashes, unicode, NUL/0x7f/invalid UTF-8, URI schemes in mixed case with ':', '://', ':/', ':///'); " +
		"IPNS names of Ed25519, RSA, Secp256k1, ECDSA keys; non-trivial path case = accepted by NewPath or NewPathFromURI and the input " +
		"is not already its own printed form; distinct by input string")
	cs := vh.NewCases(e, "From V Require Import model.M_C28.\nOpen Scope N_scope.", "case", "check_case", 250)

	// CIDs and names used as fragments
	for i := 0; i < 5; i++ {
		h, _ := mh.Sum([]byte(fmt.Sprintf("c28-%d-%d", e.Seed, i)), mh.SHA2_256, -1)
		v1 := cid.NewCidV1(cid.Raw, h)
		b36, _ := cid.NewCidV1(cid.DagProtobuf, h).StringOfBase('k')
		b58v1, _ := v1.StringOfBase('z')
		g.cids = append(g.cids, v1.String(), cid.NewCidV0(h).String(), b36, b58v1)
	}
	idh, _ := mh.Sum([]byte("hi"), mh.IDENTITY, -1)
	g.cids = append(g.cids, cid.NewCidV1(cid.Raw, idh).String())

	type keyed struct {
		kind string
		name ipns.Name
		pid  peer.ID
	}
	var keys []keyed
	nk := e.Pick(2, 12)
	for i := 0; i < nk; i++ {
		for _, kt := range []struct {
			kind string
			typ  int
			bits int
		}{{"ed25519", ci.Ed25519, 0}, {"secp256k1", ci.Secp256k1, 0}, {"ecdsa", ci.ECDSA, 0}, {"rsa", ci.RSA, 2048}} {
			if kt.kind == "rsa" && i >= 2 {
				continue
			}
			priv, _, err := ci.GenerateKeyPair(kt.typ, kt.bits)
			if err != nil {
				t.Fatal(err)
			}
			pid, err := peer.IDFromPrivateKey(priv)
			if err != nil {
				t.Fatal(err)
			}
			keys = append(keys, keyed{kt.kind, ipns.NameFromPeer(pid), pid})
		}
	}
	// Names whose multihash ends in (or contains) bytes that mean something to the text
	// layers around it: '/', NUL, '.', ':', LF, 0xff, and "/ipns/"-like sequences.  They go
	// first.  Ed25519 and Secp256k1 peer IDs are identity multihashes of the public key, RSA /
	// ECDSA ones sha2-256 multihashes; both kinds are searched for from fixed counters (a
	// few hundred cheap trials each, the same on every run).
	var special []keyed
	for _, want := range []byte{0x2f, 0x00, 0x2e, 0x3a, 0x0a, 0xff} {
		for ctr := uint32(0); ; ctr++ {
			seed := make([]byte, 32)
			binary.BigEndian.PutUint32(seed, ctr)
			seed[31] = want
			priv, _, err := ci.GenerateEd25519Key(bytes.NewReader(seed))
			if err != nil {
				t.Fatal(err)
			}
			pid, err := peer.IDFromPrivateKey(priv)
			if err != nil {
				t.Fatal(err)
			}
			if pid[len(pid)-1] == want {
				special = append(special, keyed{fmt.Sprintf("ed25519-ends-%02x", want), ipns.NameFromPeer(pid), pid})
				break
			}
		}
		for ctr := 0; ; ctr++ {
			h := mustSha([]byte(fmt.Sprintf("c28-sha-%02x-%d", want, ctr)))
			if h[len(h)-1] == want {
				special = append(special, keyed{fmt.Sprintf("sha256-ends-%02x", want), ipns.NameFromPeer(peer.ID(h)), peer.ID(h)})
				break
			}
		}
	}
	for i, data := range []string{"/ipns/", "/ipns/abc/", "x/ipns/y", "/", "//", "ipns", "/ipns/k51/../", "\x00/ipns/\x00", "a/"} {
		h, err := mh.Sum([]byte(data), mh.IDENTITY, -1)
		if err != nil {
			t.Fatal(err)
		}
		special = append(special, keyed{fmt.Sprintf("identity-%d", i), ipns.NameFromPeer(peer.ID(h)), peer.ID(h)})
	}
	keys = append(special, keys...)
	for _, k := range keys[len(special) : len(special)+4] {
		b32, _ := k.name.Cid().StringOfBase('b')
		g.names = append(g.names, k.name.String(), k.pid.String(), b32)
	}

	// ---- names ----
	for _, k := range keys {
		n := k.name
		mhb := []byte(n.Peer())
		t36, t58 := n.String(), n.Peer().String()
		t32, _ := n.Cid().StringOfBase('b')
		var back []string
		opt := func(x ipns.Name, err error) {
			if err != nil {
				back = append(back, "None")
			} else {
				back = append(back, "(Some "+cstr(string(x.Peer()))+")")
			}
		}
		opt(ipns.NameFromString(t36))
		opt(ipns.NameFromString("/ipns/" + t36))
		opt(ipns.NameFromString(t58))
		opt(ipns.NameFromString(t32))
		opt(ipns.NameFromRoutingKey(n.RoutingKey()))
		opt(ipns.NameFromCid(n.Cid()))
		opt(ipns.NameFromPeer(n.Peer()), nil)
		term := fmt.Sprintf("(CName %s %s %s %s %s %s %s %s)", cstr(string(mhb)), cstr(string(n.RoutingKey())), cstr(string(n.Peer())),
			cstr(string(n.Cid().Bytes())), cstr(t36), cstr(t58), cstr(t32), vh.List(back))
		rp := map[string]any{"kind": "name", "key": k.kind, "name": t36}
		cs.Add(term, rp)
		st.Case("name|"+t36, true)
		st.Count("name:" + k.kind)
		// Go-side oracle for what the Coq case does not carry: JSON and AsPath round trips, Equal
		js, err := json.Marshal(n)
		var n2 ipns.Name
		if err != nil || json.Unmarshal(js, &n2) != nil || !n2.Equal(n) {
			st.Violate("IPNS name does not survive its JSON form", "", rp)
		}
		ap := n.AsPath()
		if ap.String() != "/ipns/"+t36 || ap.Namespace() != "ipns" {
			st.Violate("Name.AsPath is not /ipns/<name>", "", rp)
		}
		if n3, err := ipns.NameFromString(ap.String()); err != nil || !n3.Equal(n) {
			st.Violate("NameFromString(AsPath) differs", "", rp)
		}
		// routing keys: damaged variants
		rk := n.RoutingKey()
		for _, data := range [][]byte{rk, rk[1:], rk[:len(rk)-1], append([]byte("/ipns"), mhb...), append([]byte("/ipfs/"), mhb...),
			[]byte("/ipns/"), {}, append(append([]byte{}, rk...), 0), append([]byte("/ipns/"), []byte(t36)...)} {
			rest, hasPrefix := strings.CutPrefix(string(data), "/ipns/")
			valid := false
			if hasPrefix {
				_, cerr := mh.Cast([]byte(rest))
				valid = cerr == nil
			}
			res := "None"
			if x, err := ipns.NameFromRoutingKey(data); err == nil {
				res = "(Some " + cstr(string(x.Peer())) + ")"
			}
			cs.Add(fmt.Sprintf("(CRkey %s %s %s)", cstr(string(data)), vh.Bool(valid), res), map[string]any{"kind": "rkey", "data": data})
			st.Case("rkey|"+string(data), hasPrefix)
			st.Count("rkey")
		}
	}

	// ---- names: hostile conversions ----
	fromStr := func(t string) {
		var ctbl, btbl []string
		seen := map[string]bool{}
		for _, x := range []string{t, strings.TrimPrefix(t, "/ipns/")} {
			if seen[x] {
				continue
			}
			seen[x] = true
			if c, err := cid.Decode(x); err == nil && c.Type() < 128 {
				ctbl = append(ctbl, fmt.Sprintf("(%s, (%d, %d, %s))", cstr(x), c.Version(), c.Type(), cstr(string(c.Hash()))))
			}
			if m, err := mh.FromB58String(x); err == nil {
				btbl = append(btbl, "("+cstr(x)+", "+cstr(string(m))+")")
			}
		}
		res := "None"
		if x, err := ipns.NameFromString(t); err == nil {
			res = "(Some " + cstr(string(x.Peer())) + ")"
		}
		cs.Add(fmt.Sprintf("(CFromStr %s %s %s %s)", cstr(t), vh.List(ctbl), vh.List(btbl), res), map[string]any{"kind": "name-from-string", "input": t})
		st.Case("fs|"+t, res != "None")
		st.Count("name-from-string")
	}
	for _, k := range keys {
		n := k.name
		mhb := []byte(n.Peer())
		for _, codec := range []uint64{cid.Libp2pKey, cid.Raw, cid.DagProtobuf, cid.DagCBOR} {
			c := cid.NewCidV1(codec, mh.Multihash(mhb))
			res := "None"
			if x, err := ipns.NameFromCid(c); err == nil {
				res = "(Some " + cstr(string(x.Peer())) + ")"
			}
			cs.Add(fmt.Sprintf("(CFromCid %d %s %s)", codec, cstr(string(mhb)), res), map[string]any{"kind": "name-from-cid", "codec": codec, "name": n.String()})
			st.Case(fmt.Sprintf("fc|%d|%s", codec, n.String()), codec == cid.Libp2pKey)
			st.Count("name-from-cid")
			for _, base := range []byte{'b', 'k', 'z', 'f'} {
				if txt, err := c.StringOfBase(mbEnc(base)); err == nil {
					fromStr(txt)
					if base == 'k' {
						fromStr("/ipns/" + txt)
						fromStr("/ipfs/" + txt)
						fromStr(txt + "/")
					}
				}
			}
		}
		fromStr(n.Peer().String())
		fromStr("/ipns/" + n.Peer().String())
		fromStr(cid.NewCidV0(mustSha(mhb)).String()) // a "Qm…" text: taken as a base58 multihash, not as a CID
		fromStr(n.String()[:len(n.String())-2])
		fromStr("1" + n.String())
	}
	for _, t := range []string{"", "/ipns/", "Qm", "1", "k", "example.com", "/ipns/example.com", "bafkqaaa", "QmInvalid0OIl"} {
		fromStr(t)
	}
	{
		// a routing key that only starts with "/ipn" but whose bytes happen to parse as a multihash
		data := append([]byte("/ipn"), make([]byte, 103)...)
		_, cerr := mh.Cast(data)
		res := "None"
		if x, err := ipns.NameFromRoutingKey(data); err == nil {
			res = "(Some " + cstr(string(x.Peer())) + ")"
		}
		cs.Add(fmt.Sprintf("(CRkey %s false %s)", cstr(string(data)), res), map[string]any{"kind": "rkey", "data": data, "whole_is_multihash": cerr == nil})
		st.Case("rkey|ipn", true)
		st.Count("rkey")
	}

	// ---- paths ----
	corpus := []string{
		"/ipfs/" + g.cids[0], "/ipfs/" + g.cids[0] + "/", "/ipfs/" + g.cids[1] + "/a/./b/../c//d/", "/ipld/" + g.cids[2] + "/..",
		"/ipns/example.com/../x", "/ipns/" + g.names[0] + "/a/", "ipfs://" + g.cids[0] + "/a", "IPNS:" + g.names[1], "/ipfs/" + g.cids[0] + "/..//",
		"/ipfs//" + g.cids[0], "//ipfs/" + g.cids[0], "/./ipfs/" + g.cids[0] + "/.", "/ipfs/" + g.cids[0] + "/\x00/ü",
	}
	nPaths := e.Pick(1300, 30000)
	for i := 0; i < nPaths; i++ {
		var s string
		if i < len(corpus) {
			s = corpus[i]
		} else {
			s = g.pathString()
		}
		r1 := observe(path.NewPath(s))
		r2 := "None"
		inputs := []string{s}
		if r1.OK {
			r2 = "(Some " + observe(path.NewPath(r1.Str)).coq() + ")"
			inputs = append(inputs, r1.Str)
		}
		ru := observe(path.NewPathFromURI(s))
		gc := "None"
		if strings.HasPrefix(s, "/") {
			gc = "(Some " + cstr(gopath.Clean(s)) + ")"
		}
		term := fmt.Sprintf("(CParse %s %s %s %s %s %s)", cstr(s), cidTable(inputs...), gc, r1.coq(), r2, ru.coq())
		rp := map[string]any{"kind": "parse", "input": s, "input_bytes": []byte(s)}
		cs.Add(term, rp)
		st.Case("p|"+s, (r1.OK || ru.OK) && r1.Str != s)
		st.Count("parse")
		switch {
		case r1.OK:
			st.Count("NewPath:ok:" + r1.NS)
		default:
			st.Count("NewPath:" + r1.Err)
		}
		if ru.OK && !r1.OK {
			st.Count("NewPathFromURI:ok-only-as-uri")
		}
		if r1.OK && r1.Str != s {
			st.Count("NewPath:ok:input-not-canonical")
		}
		st.Sample(rp, 4)
	}
	nUri := e.Pick(350, 8000)
	for i := 0; i < nUri; i++ {
		scheme := g.pick(schemes)
		slashes := g.coin(0.6)
		var rest string
		switch x := g.n(10); {
		case x < 6:
			rest = g.rootFrag()
			k := g.n(4)
			for j := 0; j < k; j++ {
				rest += g.pick(sepFrags) + g.pick(segFrags)
			}
			rest += g.pick(tailFrags)
		case x < 8:
			rest = g.pick([]string{"/", "//", "///"}) + g.rootFrag() + g.pick(tailFrags)
		case x < 9:
			rest = g.pick([]string{"", "/", "//", ".", ".."})
		default:
			rest = g.body()
		}
		u := scheme + ":"
		if slashes {
			u += "//"
		}
		u += rest
		canon := "/" + strings.ToLower(scheme) + "/"
		if slashes {
			canon += rest
		} else {
			canon += strings.TrimPrefix(rest, "//")
		}
		ru := observe(path.NewPathFromURI(u))
		rc := observe(path.NewPath(canon))
		term := fmt.Sprintf("(CUri %s %s %s %s %s %s)", cstr(scheme), vh.Bool(slashes), cstr(rest), cidTable(u, canon), ru.coq(), rc.coq())
		rp := map[string]any{"kind": "uri", "input": u, "canonical": canon}
		cs.Add(term, rp)
		st.Case("u|"+u, ru.OK)
		st.Count("uri")
		if ru.OK {
			st.Count("uri:ok")
		}
		st.Sample(rp, 6)
	}
	cs.Close()
	st.Write(e)
}
