package c37

import (
	"context"
	"fmt"
	"testing"
	"time"

	testinstance "github.com/ipfs/boxo/bitswap/testinstance"
	tn "github.com/ipfs/boxo/bitswap/testnet"
	mockrouting "github.com/ipfs/boxo/routing/mock"
	blocks "github.com/ipfs/go-block-format"
	"github.com/ipfs/go-cid"
	delay "github.com/ipfs/go-ipfs-delay"
)

func TestExplore(t *testing.T) {
	vnet := tn.VirtualNetwork(delay.Fixed(2 * time.Millisecond))
	router := mockrouting.NewServer()
	ig := testinstance.NewTestInstanceGenerator(vnet, router, nil, nil)
	defer ig.Close()
	inst := ig.Instances(3)
	var blks []blocks.Block
	for i := 0; i < 4; i++ {
		blks = append(blks, blocks.NewBlock([]byte(fmt.Sprintf("block-%d", i))))
	}
	ctx := context.Background()
	for i, b := range blks[:3] {
		n := inst[1+i%2]
		if err := n.Blockstore.Put(ctx, b); err != nil {
			t.Fatal(err)
		}
		n.Exchange.NotifyNewBlocks(ctx, b)
	}
	req := inst[0]
	// same-session overlap: A and B both want block 0; A is cancelled immediately
	sess := req.Exchange.NewSession(ctx)
	actx, acancel := context.WithCancel(ctx)
	keysA := []cid.Cid{blks[0].Cid(), blks[3].Cid()}
	chA, _ := sess.GetBlocks(actx, keysA)
	chB, _ := sess.GetBlocks(ctx, []cid.Cid{blks[3].Cid()})
	acancel()
	time.Sleep(50 * time.Millisecond)
	t.Log("wantlist after cancel A:", len(req.Exchange.GetWantlist()))
	// now the block appears
	inst[1].Blockstore.Put(ctx, blks[3])
	inst[1].Exchange.NotifyNewBlocks(ctx, blks[3])
	start := time.Now()
	select {
	case b, ok := <-chB:
		t.Log("B got", ok, b != nil, time.Since(start))
	case <-time.After(5 * time.Second):
		t.Log("B starved for 5s; wantlist:", len(req.Exchange.GetWantlist()))
	}
	for range chA {
	}
	// plain GetBlocks with duplicates
	start = time.Now()
	ch, _ := req.Exchange.GetBlocks(ctx, []cid.Cid{blks[1].Cid(), blks[1].Cid(), blks[2].Cid()})
	n := 0
	for range ch {
		n++
	}
	t.Log("got", n, "in", time.Since(start))
	time.Sleep(20 * time.Millisecond)
	t.Log("wantlist:", len(req.Exchange.GetWantlist()))
}
