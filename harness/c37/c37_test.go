// Correspondence harness for C37 (bitswap client request path).
//
// Three kinds of cases are written into cases_*.v and evaluated by Coq against
// model/M_C37.v:
//   - CUnit: the real getter.AsyncGetBlocks over the real notifications.PubSub is
//     driven with a chosen sequence of Publish / cancel events (several requests
//     on one PubSub, duplicate and unrequested keys); observed: what each output
//     channel carried, whether it was closed, the argument of the cancel callback
//     and of the want callback.
//   - CNode: one requester node of a two-node virtual network is taken through a
//     sequenced history (requests in shared and separate sessions, blocks
//     appearing at the provider, cancellations); after each step the harness
//     waits until GetWantlist() settles and records it.
//   - CSys: virtual networks of 2-6 nodes with random block placement, concurrent
//     overlapping requests and sessions, duplicate keys, cancellation at random
//     points, latency; observed: the blocks every request delivered, whether its
//     channel closed, and every node's want-list after everything has ended.
//
// Every assertion is timing-independent: waits are polls with generous
// deadlines, never fixed sleeps that the verdict depends on.
package c37

import (
	"context"
	"fmt"
	"sort"
	"sync"
	"testing"
	"time"

	"github.com/ipfs/boxo/bitswap"
	bsclient "github.com/ipfs/boxo/bitswap/client"
	testinstance "github.com/ipfs/boxo/bitswap/testinstance"
	tn "github.com/ipfs/boxo/bitswap/testnet"
	"github.com/ipfs/boxo/exchange"
	mockrouting "github.com/ipfs/boxo/routing/mock"
	blocks "github.com/ipfs/go-block-format"
	"github.com/ipfs/go-cid"
	delay "github.com/ipfs/go-ipfs-delay"
	"github.com/libp2p/go-libp2p/core/peer"

	"verif/harness/vh"
)

const (
	longWait        = 90 * time.Second        // deadline for things that must happen
	midWait         = 12 * time.Second        // how long a request that C37-3 may delay is given
	shortWait       = 2500 * time.Millisecond // how long a request the known defect may starve is given
	leakWait        = 3 * time.Second         // how long a want-list that holds only delivered keys is watched
	divergeWait     = 10 * time.Second        // how long the engine is given to reach the prediction of the defective variant
	tickSearch      = 25 * time.Millisecond   // ProviderSearchDelay (idle tick, with back-off) in histories with ticks
	tickRebroadcast = 40 * time.Millisecond   // RebroadcastDelay (periodic search) in histories with ticks
	tickWindow      = 350 * time.Millisecond  // how long one tick event watches the want-list
	unitWait        = 30 * time.Second        // deadline inside a unit / node case; when it passes the case is cut short
	wantWait        = 2 * time.Second         // how long blocks published during the want callback are given to be delivered
	lagWait         = 5 * time.Second         // how long a request next to a lagging reader is given to be served
)

// stuckCases counts cases that were cut short because a deadline passed; once a few have been
// seen the remaining generated node cases are skipped (each would wait for its deadline again).
var stuckCases int

// ---------- block universe ----------

type universe struct {
	blks []blocks.Block
	id   map[cid.Cid]int
}

func newUniverse(n int, salt string) *universe {
	u := &universe{id: map[cid.Cid]int{}}
	for i := 0; i < n; i++ {
		b := blocks.NewBlock([]byte(fmt.Sprintf("c37-%s-%d", salt, i)))
		u.blks = append(u.blks, b)
		u.id[b.Cid()] = i
	}
	return u
}
func (u *universe) cids(keys []int) []cid.Cid {
	out := make([]cid.Cid, len(keys))
	for i, k := range keys {
		out[i] = u.blks[k].Cid()
	}
	return out
}
func (u *universe) ids(cs []cid.Cid) []int {
	out := make([]int, 0, len(cs))
	for _, c := range cs {
		id, ok := u.id[c]
		if !ok {
			id = 999 // a CID that is not in the universe
		}
		out = append(out, id)
	}
	sort.Ints(out)
	return out
}

func nats(xs []int) string { return vh.ListOf(xs, func(x int) string { return fmt.Sprint(x) }) }
func optNats(present bool, xs []int) string {
	if !present {
		return "None"
	}
	return "(Some " + nats(xs) + ")"
}
func dedup(xs []int) []int {
	seen := map[int]bool{}
	var out []int
	for _, x := range xs {
		if !seen[x] {
			seen[x] = true
			out = append(out, x)
		}
	}
	return out
}
func subset(a, b []int) bool {
	for _, x := range a {
		found := false
		for _, y := range b {
			if x == y {
				found = true
			}
		}
		if !found {
			return false
		}
	}
	return true
}
func intsEq(a, b []int) bool {
	if len(a) != len(b) {
		return false
	}
	for i := range a {
		if a[i] != b[i] {
			return false
		}
	}
	return true
}

// recvBlock reads one block or notices the close, within d.
func recvBlock(ch <-chan blocks.Block, d time.Duration) (b blocks.Block, open, timedOut bool) {
	select {
	case b, ok := <-ch:
		return b, ok, false
	case <-time.After(d):
		return nil, true, true
	}
}

// ================= unit level =================

type uev struct {
	Pub  bool `json:"pub"`
	K    int  `json:"k"`
	Sess bool `json:"session_ctx,omitempty"` // cancel through the session context instead of the request context
}

type ureq struct {
	keys   []int
	out    []int
	closed bool
	cbSeen bool
	cb     []int
	want   []int

	ch      <-chan blocks.Block
	cancel  context.CancelFunc
	scancel context.CancelFunc
	cbCh    chan []cid.Cid
	sub     map[int]bool // harness shadow: keys not yet delivered
	done    bool
}

func runUnit(t *testing.T, reqKeys [][]int, evs []uev) (string, map[string]any) {
	u := newUniverse(8, "u")
	notif := bsclient.VerifNewPubSub()
	defer notif.Shutdown()
	reqs := make([]*ureq, len(reqKeys))
	for i, ks := range reqKeys {
		r := &ureq{keys: ks, sub: map[int]bool{}, cbCh: make(chan []cid.Cid, 4)}
		for _, k := range ks {
			r.sub[k] = true
		}
		ctx, cancel := context.WithCancel(context.Background())
		sctx, scancel := context.WithCancel(context.Background())
		r.cancel, r.scancel = cancel, scancel
		var mu sync.Mutex
		ch, err := bsclient.VerifAsyncGetBlocks(ctx, sctx, u.cids(ks), notif,
			func(_ context.Context, ws []cid.Cid) {
				mu.Lock()
				for _, c := range ws {
					r.want = append(r.want, u.id[c])
				}
				mu.Unlock()
			},
			func(cs []cid.Cid) { r.cbCh <- cs })
		if err != nil {
			t.Fatal(err)
		}
		r.ch = ch
		if len(ks) == 0 {
			r.done = true
		}
		reqs[i] = r
	}
	stuck := false            // a deadline passed: stop driving, what was observed goes to Coq as it is
	finish := func(r *ureq) { // the request must now close its channel and call the callback once
		for {
			b, open, to := recvBlock(r.ch, unitWait)
			if to {
				stuck = true
				return
			}
			if !open {
				break
			}
			r.out = append(r.out, u.id[b.Cid()]) // anything extra shows up in the observation
		}
		r.closed = true
		select {
		case cs := <-r.cbCh:
			r.cbSeen, r.cb = true, u.ids(cs)
		case <-time.After(unitWait):
			stuck = true
		}
		r.done = true
	}
	for _, e := range evs {
		if stuck {
			break
		}
		if e.Pub {
			notif.Publish(peer.ID("src"), u.blks[e.K])
			for _, r := range reqs {
				if r.done || !r.sub[e.K] || stuck {
					continue
				}
				b, open, to := recvBlock(r.ch, unitWait)
				if to {
					stuck = true
					continue
				}
				if !open {
					r.closed, r.done = true, true
					continue
				}
				r.out = append(r.out, u.id[b.Cid()])
				delete(r.sub, e.K)
				if len(r.sub) == 0 {
					finish(r)
				}
			}
		} else {
			r := reqs[e.K]
			if e.Sess {
				r.scancel()
			} else {
				r.cancel()
			}
			if !r.done {
				finish(r)
			}
		}
	}
	// requests still open: nothing may be pending on their channels
	time.Sleep(2 * time.Millisecond)
	for _, r := range reqs {
		if r.closed {
			select {
			case cs := <-r.cbCh: // a second callback would be a defect
				r.cb = append(r.cb, u.ids(cs)...)
				r.cb = append(r.cb, 998)
			default:
			}
			continue
		}
		for more := true; more; {
			select {
			case b, ok := <-r.ch:
				if !ok {
					r.closed, more = true, false
				} else {
					r.out = append(r.out, u.id[b.Cid()])
				}
			default:
				more = false
			}
		}
		select {
		case cs := <-r.cbCh:
			r.cbSeen, r.cb = true, u.ids(cs)
		default:
		}
	}
	for _, r := range reqs {
		r.cancel()
		r.scancel()
	}
	if stuck {
		stuckCases++
	}
	evc := vh.ListOf(evs, func(e uev) string {
		if e.Pub {
			return fmt.Sprintf("(UPub %d)", e.K)
		}
		return fmt.Sprintf("(UCancel %d)", e.K)
	})
	obs := vh.ListOf(reqs, func(r *ureq) string {
		return fmt.Sprintf("(UO %s %s %s %s)", nats(r.out), vh.Bool(r.closed), optNats(r.cbSeen, r.cb), nats(r.want))
	})
	term := fmt.Sprintf("(CUnit %s %s %s)", vh.ListOf(reqKeys, nats), evc, obs)
	return term, map[string]any{"kind": "unit", "requests": reqKeys, "events": evs}
}

func genUnit(e *vh.Env) ([][]int, []uev) {
	r := e.Rng
	nr := 1 + r.Intn(3)
	reqs := make([][]int, nr)
	for i := range reqs {
		n := r.Intn(6)
		if r.Intn(10) == 0 {
			n = 0
		}
		for j := 0; j < n; j++ {
			reqs[i] = append(reqs[i], r.Intn(6)) // keys 0..5, duplicates likely; 6,7 are never requested
		}
		if reqs[i] == nil {
			reqs[i] = []int{}
		}
	}
	ne := r.Intn(14)
	evs := make([]uev, 0, ne)
	for j := 0; j < ne; j++ {
		if r.Intn(6) == 0 {
			evs = append(evs, uev{K: r.Intn(nr), Sess: r.Intn(3) == 0})
		} else {
			evs = append(evs, uev{Pub: true, K: r.Intn(8)})
		}
	}
	return reqs, evs
}

// ================= lagging reader =================

// seq is 0..n-1 shifted by off.
func seq(off, n int) []int {
	out := make([]int, n)
	for i := range out {
		out[i] = off + i
	}
	return out
}

// readAll reads from ch until it has n blocks, the channel closes or d passes.
func readAll(u *universe, ch <-chan blocks.Block, n int, d time.Duration) (out []int, closed bool) {
	deadline := time.After(d)
	for len(out) < n {
		select {
		case b, ok := <-ch:
			if !ok {
				return out, true
			}
			out = append(out, u.id[b.Cid()])
		case <-deadline:
			return out, false
		}
	}
	return out, false
}

func lagTerm(keys0, pubs, out0 []int, cancelled bool, others [][2][]int) string {
	os := vh.ListOf(others, func(o [2][]int) string { return "(" + nats(o[0]) + ", " + nats(o[1]) + ")" })
	return fmt.Sprintf("(CLag %s %s %s %s %s)", nats(keys0), nats(pubs), nats(out0), vh.Bool(cancelled), os)
}

// runLagUnit: a subscription for n keys (through the real getter) whose output is not read while all its
// blocks are published; then other requests on the same PubSub - one that subscribed before, one that
// subscribes only now - must be served within lagWait. With cancelLagging the lagging request is cancelled
// before the others are served (nobody drains its channels any more); otherwise it is drained at the end
// and must have got everything, in publication order.
func runLagUnit(t *testing.T, n int, cancelLagging bool) (string, map[string]any) {
	u := newUniverse(n+2, "lag")
	notif := bsclient.VerifNewPubSub()
	defer func() { go notif.Shutdown() }() // not waited for: a wedged pubsub would hold it for ever
	start := func(ctx context.Context, keys []int) <-chan blocks.Block {
		ch, _ := bsclient.VerifAsyncGetBlocks(ctx, context.Background(), u.cids(keys), notif,
			func(context.Context, []cid.Cid) {}, func([]cid.Cid) {})
		return ch
	}
	ctx, cancelAll := context.WithCancel(context.Background())
	defer cancelAll()
	ctx0, cancel0 := context.WithCancel(ctx)
	defer cancel0()
	keys0 := seq(0, n)
	ch0 := start(ctx0, keys0)
	early := []int{n, 0} // subscribed before the flood; shares key 0 with the lagging request
	chEarly := start(ctx, early)
	// the flood: every block of the lagging request, none of them read. Publish itself must not block.
	pubDone := make(chan struct{})
	go func() {
		for _, k := range keys0 {
			notif.Publish(peer.ID("src"), u.blks[k])
		}
		notif.Publish(peer.ID("src"), u.blks[n])
		close(pubDone)
	}()
	select {
	case <-pubDone:
	case <-time.After(lagWait):
	}
	if cancelLagging {
		cancel0()
	}
	outEarly, _ := readAll(u, chEarly, 2, lagWait)
	// a request that starts only now (Subscribe goes through the same pubsub goroutine)
	late := []int{n + 1}
	var outLate []int
	lateDone := make(chan struct{})
	go func() {
		chLate := start(ctx, late)
		notif.Publish(peer.ID("src"), u.blks[n+1])
		outLate, _ = readAll(u, chLate, 1, lagWait)
		close(lateDone)
	}()
	select {
	case <-lateDone:
	case <-time.After(lagWait + time.Second): // not even subscribed: nothing delivered
	}
	var out0 []int
	if !cancelLagging {
		out0, _ = readAll(u, ch0, n+1, lagWait) // n blocks, then the close
	}
	// let a late goroutine finish before its result is read (after the drain nothing is wedged any more)
	select {
	case <-lateDone:
	case <-time.After(lagWait):
	}
	var lateCopy []int
	select {
	case <-lateDone:
		lateCopy = outLate
	default:
	}
	term := lagTerm(keys0, keys0, out0, cancelLagging, [][2][]int{{early, outEarly}, {late, lateCopy}})
	return term, map[string]any{"kind": "lagging-reader-unit", "keys": n, "cancel_lagging": cancelLagging}
}

// runWantPublishes: the blocks arrive while the want is being registered: the want callback publishes
// every wanted block on the PubSub before it returns (what receiveBlocksFrom does when a peer without
// latency, or a copy already in flight for another session, answers at once). The subscription must exist
// by then: every key is delivered, in that order, within wantWait.
func runWantPublishes(t *testing.T, keys []int) (string, map[string]any) {
	max := 0
	for _, k := range keys {
		if k > max {
			max = k
		}
	}
	u := newUniverse(max+1, "wp")
	notif := bsclient.VerifNewPubSub()
	defer func() { go notif.Shutdown() }()
	ctx, cancel := context.WithCancel(context.Background())
	defer cancel()
	ch, _ := bsclient.VerifAsyncGetBlocks(ctx, context.Background(), u.cids(keys), notif,
		func(_ context.Context, ws []cid.Cid) {
			for _, c := range ws {
				notif.Publish(peer.ID("src"), u.blks[u.id[c]])
			}
		}, func([]cid.Cid) {})
	out, _ := readAll(u, ch, len(dedup(keys))+1, wantWait)
	term := lagTerm(keys, keys, out, false, nil)
	return term, map[string]any{"kind": "blocks-arrive-during-want", "keys": keys}
}

// runLagNode: the same at node level. The requester asks for n blocks that the provider holds and reads
// only the first one (the others arrive and wait in the subscription's buffers); then, like a DAG walk, it
// fetches another block with GetBlock before reading on. With cancelLagging the big request is cancelled first.
func runLagNode(t *testing.T, n int, cancelLagging bool) (string, map[string]any) {
	u := newUniverse(n+1, "lagnode")
	vnet := tn.VirtualNetwork(delay.Fixed(0))
	ig := testinstance.NewTestInstanceGenerator(vnet, mockrouting.NewServer(), nil, nil)
	defer ig.Close()
	inst := ig.Instances(2)
	req, prov := inst[0], inst[1]
	ctx, cancelAll := context.WithCancel(context.Background())
	defer cancelAll()
	for _, b := range u.blks {
		if err := prov.Blockstore.Put(ctx, b); err != nil {
			t.Fatal(err)
		}
	}
	keys0 := seq(0, n)
	ctx0, cancel0 := context.WithCancel(ctx)
	defer cancel0()
	ch0, err := req.Exchange.GetBlocks(ctx0, u.cids(keys0))
	if err != nil {
		t.Fatal(err)
	}
	out0, _ := readAll(u, ch0, 1, unitWait)
	// give the rest time to arrive (they are wanted until received): the want-list drains when all are in
	deadline := time.Now().Add(unitWait)
	for len(req.Exchange.GetWantlist()) != 0 && time.Now().Before(deadline) {
		time.Sleep(time.Millisecond)
	}
	if cancelLagging {
		cancel0()
	}
	other := []int{n}
	var outOther []int
	done := make(chan struct{})
	go func() {
		gctx, gcancel := context.WithTimeout(ctx, lagWait)
		defer gcancel()
		if b, err := req.Exchange.GetBlock(gctx, u.blks[n].Cid()); err == nil {
			outOther = []int{u.id[b.Cid()]}
		}
		close(done)
	}()
	var otherCopy []int
	select {
	case <-done:
		otherCopy = outOther
	case <-time.After(lagWait + time.Second): // GetBlock did not even return: nothing delivered
	}
	if !cancelLagging {
		rest, _ := readAll(u, ch0, n, unitWait)
		out0 = append(out0, rest...)
	}
	// the model fixes the order of the lagging request's output by publication order; over the network the
	// arrival order is the provider's: hand the observed order to the model as the publication order
	term := lagTerm(keys0, out0, out0, cancelLagging, [][2][]int{{other, otherCopy}})
	return term, map[string]any{"kind": "lagging-reader-node", "keys": n, "cancel_lagging": cancelLagging}
}

// ================= node level =================

type nev struct {
	Kind string `json:"ev"` // start block cancel
	Sess int    `json:"sess,omitempty"`
	Keys []int  `json:"keys,omitempty"`
	K    int    `json:"k,omitempty"`
}

// shadow of the model's node, used only to know what to wait for
type shReq struct {
	sess int
	sub  map[int]bool
	done bool
}
type shadow struct {
	shared bool
	reqs   []*shReq
	sw     map[int]map[int]bool
}

func newShadow(shared bool) *shadow { return &shadow{shared: shared, sw: map[int]map[int]bool{}} }
func (s *shadow) wantlist() []int {
	set := map[int]bool{}
	for _, m := range s.sw {
		for k := range m {
			set[k] = true
		}
	}
	out := make([]int, 0, len(set))
	for k := range set {
		out = append(out, k)
	}
	sort.Ints(out)
	return out
}
func (s *shadow) start(sess int, keys []int) {
	r := &shReq{sess: sess, sub: map[int]bool{}, done: len(keys) == 0}
	for _, k := range keys {
		r.sub[k] = true
	}
	s.reqs = append(s.reqs, r)
	if len(keys) == 0 {
		return
	}
	if s.sw[sess] == nil {
		s.sw[sess] = map[int]bool{}
	}
	for _, k := range keys {
		s.sw[sess][k] = true
	}
}
func (s *shadow) wanted(k int) bool {
	for _, m := range s.sw {
		if m[k] {
			return true
		}
	}
	return false
}
func (s *shadow) block(k int) (receivers []int) {
	if !s.wanted(k) {
		return nil
	}
	for i, r := range s.reqs {
		if !r.done && r.sub[k] {
			delete(r.sub, k)
			receivers = append(receivers, i)
			if len(r.sub) == 0 {
				r.done = true
			}
		}
	}
	for _, m := range s.sw {
		delete(m, k)
	}
	return receivers
}
func (s *shadow) cancel(i int) {
	r := s.reqs[i]
	if r.done {
		return
	}
	for k := range r.sub {
		keep := false
		if !s.shared {
			for j, o := range s.reqs {
				if j != i && o.sess == r.sess && !o.done && o.sub[k] {
					keep = true
				}
			}
		}
		if !keep {
			delete(s.sw[r.sess], k)
		}
	}
	r.done = true
}

type nreq struct {
	ch     <-chan blocks.Block
	cancel context.CancelFunc
	out    []int
	closed bool
}

func runNode(t *testing.T, evs []nev) (string, map[string]any) {
	u := newUniverse(8, "n")
	vnet := tn.VirtualNetwork(delay.Fixed(0))
	var opts []bitswap.Option
	for _, e := range evs {
		if e.Kind == "tick" {
			// histories that watch the want-list over time: make the sessions' idle tick and
			// periodic search fire every few tens of milliseconds
			opts = []bitswap.Option{bitswap.ProviderSearchDelay(tickSearch), bitswap.RebroadcastDelay(tickRebroadcast)}
			break
		}
	}
	ig := testinstance.NewTestInstanceGenerator(vnet, mockrouting.NewServer(), nil, opts)
	defer ig.Close()
	inst := ig.Instances(2)
	req, prov := inst[0], inst[1]
	ctx, cancelAll := context.WithCancel(context.Background())
	defer cancelAll()
	sessions := map[int]exchange.Fetcher{}
	on, off := newShadow(true), newShadow(false)
	provHas := map[int]bool{}
	var reqs []*nreq
	var terms []string
	wl := func() []int { return u.ids(req.Exchange.GetWantlist()) }
	// settle waits until the want-list equals what the model predicts. The two variants of the
	// model (defect C37-1 on / off) mostly agree; where they differ the engine is first given
	// time to reach the prediction of the code as it is (its cancellation is asynchronous, so
	// the other prediction may be a transient state), and from then on only the variant that
	// the engine followed is waited for.
	follow := ""
	stuck := false
	// late: keys seen to stay in / come back into the want-list as want-BLOCKs although the model says they
	// are gone (received or cancelled): the session want sender's late want of C37-2, which under heavy
	// machine load also happens on a two-node network. They are reported to Coq, which then compares the
	// want-lists without them and classifies the case as that finding. A key that comes back as a
	// (re-broadcast) want-have is never put here.
	late := map[int]bool{}
	asked := map[int]bool{}
	minusLate := func(xs []int) []int {
		out := make([]int, 0, len(xs))
		for _, x := range xs {
			if !late[x] {
				out = append(out, x)
			}
		}
		return out
	}
	// lateExtras: what the want-list holds beyond want, if all of it is want-blocks for keys asked for earlier
	lateExtras := func(got, want []int) []int {
		wb := u.ids(req.Exchange.GetWantBlocks())
		var extras []int
		for _, k := range got {
			if !subset([]int{k}, want) {
				if !asked[k] || !subset([]int{k}, wb) {
					return nil
				}
				extras = append(extras, k)
			}
		}
		if !subset(want, got) {
			return nil
		}
		return extras
	}
	waitFor := func(want []int, d time.Duration) ([]int, bool) {
		deadline := time.Now().Add(d)
		var extraSince time.Time
		for {
			got := wl()
			if intsEq(minusLate(got), minusLate(want)) {
				return got, true
			}
			if ex := lateExtras(minusLate(got), minusLate(want)); len(ex) > 0 {
				if extraSince.IsZero() {
					extraSince = time.Now()
				} else if time.Since(extraSince) > leakWait {
					for _, k := range ex {
						late[k] = true
					}
					return got, true
				}
			} else {
				extraSince = time.Time{}
			}
			if time.Now().After(deadline) {
				return got, false
			}
			time.Sleep(time.Millisecond)
		}
	}
	// provSync waits until the provider's ledger for the requester holds every key of the requester's
	// want-list: the harness must not make a block appear while the provider is still processing the want
	// message (the engine reads block sizes before it records the want; a block stored in between is not
	// announced to that want - a server-side matter outside this property)
	provSync := func(want []int) {
		deadline := time.Now().Add(unitWait)
		for {
			if subset(want, u.ids(prov.Exchange.WantlistForPeer(req.Identity.ID()))) || time.Now().After(deadline) {
				return
			}
			time.Sleep(time.Millisecond)
		}
	}
	settle0 := func() []int {
		pon, poff := on.wantlist(), off.wantlist()
		switch {
		case intsEq(pon, poff) || follow == "on":
			got, ok := waitFor(pon, unitWait)
			stuck = stuck || !ok // on a timeout Coq reports the mismatch and the case ends here
			return got
		case follow == "off":
			got, ok := waitFor(poff, unitWait)
			stuck = stuck || !ok
			return got
		}
		if got, ok := waitFor(pon, divergeWait); ok {
			follow = "on"
			return got
		}
		got, ok := waitFor(poff, unitWait)
		if ok {
			follow = "off"
		}
		stuck = stuck || !ok
		return got
	}
	slow := false      // an expected delivery did not come in time
	delivered := false // a block was read since the last settle
	settle := func() []int {
		got := settle0()
		provSync(got)
		if delivered {
			// the provider counts a response task as done only after the network took the message (which,
			// without latency, the requester has then already processed): a want for the same key sent in
			// that instant is merged into the finished task and lost until the periodic rebroadcast - a
			// server-side race outside this property. Let the provider finish before the next step.
			deadline := time.Now().Add(unitWait)
			for !subset(u.ids(prov.Exchange.WantlistForPeer(req.Identity.ID())), got) && time.Now().Before(deadline) {
				time.Sleep(time.Millisecond)
			}
			time.Sleep(10 * time.Millisecond)
			delivered = false
		}
		return got
	}
	emit := func(ev string, obs []int, have bool) {
		terms = append(terms, fmt.Sprintf("(%s, %s)", ev, optNats(have, obs)))
	}
	// deliver reads block k from every request that one of the variants says must get it
	deliver := func(k int) {
		ron, roff := on.block(k), off.block(k)
		inOn, inOff := map[int]bool{}, map[int]bool{}
		for _, i := range ron {
			inOn[i] = true
		}
		for _, i := range roff {
			inOff[i] = true
		}
		must, may := map[int]bool{}, map[int]bool{} // both variants agree / only one expects a delivery
		for i := range reqs {
			switch {
			case inOn[i] && inOff[i]:
				must[i] = true
			case inOn[i] || inOff[i]:
				may[i] = true
			}
		}
		for i, r := range reqs {
			if !must[i] && !may[i] {
				continue
			}
			d := unitWait
			if may[i] {
				d = shortWait
				if (follow == "on" && !inOn[i]) || (follow == "off" && !inOff[i]) {
					continue // the variant the engine follows does not deliver here
				}
				if (follow == "on" && inOn[i]) || (follow == "off" && inOff[i]) {
					d = unitWait
				}
			}
			b, open, to := recvBlock(r.ch, d)
			if to {
				if must[i] {
					slow = true
				}
				continue
			}
			if !open {
				r.closed = true
				continue
			}
			r.out = append(r.out, u.id[b.Cid()])
			delivered = true
		}
	}
	for _, e := range evs {
		if stuck {
			break
		}
		switch e.Kind {
		case "start":
			rctx, cancel := context.WithCancel(ctx)
			var ch <-chan blocks.Block
			var err error
			if e.Sess >= 10 {
				// a session of its own: Exchange.GetBlocks creates it and ends it with the request
				ch, err = req.Exchange.GetBlocks(rctx, u.cids(e.Keys))
			} else {
				s, ok := sessions[e.Sess]
				if !ok {
					s = req.Exchange.NewSession(ctx)
					sessions[e.Sess] = s
				}
				ch, err = s.GetBlocks(rctx, u.cids(e.Keys))
			}
			if err != nil {
				t.Fatal(err)
			}
			reqs = append(reqs, &nreq{ch: ch, cancel: cancel})
			for _, k := range e.Keys {
				asked[k] = true
			}
			on.start(e.Sess, e.Keys)
			off.start(e.Sess, e.Keys)
			// blocks the provider already holds arrive now, one model event each
			var present []int
			for _, k := range dedup(e.Keys) {
				if provHas[k] {
					present = append(present, k)
				}
			}
			if len(present) == 0 {
				emit(fmt.Sprintf("NStart %d %s", e.Sess, nats(e.Keys)), settle(), true)
			} else {
				emit(fmt.Sprintf("NStart %d %s", e.Sess, nats(e.Keys)), nil, false)
				for i, k := range present {
					deliver(k)
					if i == len(present)-1 {
						emit(fmt.Sprintf("NBlock %d", k), settle(), true)
					} else {
						emit(fmt.Sprintf("NBlock %d", k), nil, false)
					}
				}
			}
		case "block":
			if !provHas[e.K] {
				provHas[e.K] = true
				if err := prov.Blockstore.Put(ctx, u.blks[e.K]); err != nil {
					t.Fatal(err)
				}
				prov.Exchange.NotifyNewBlocks(ctx, u.blks[e.K])
			}
			deliver(e.K)
			emit(fmt.Sprintf("NBlock %d", e.K), settle(), true)
		case "cancel":
			r := reqs[e.K]
			r.cancel()
			on.cancel(e.K)
			off.cancel(e.K)
			for !r.closed {
				b, open, to := recvBlock(r.ch, unitWait)
				if to {
					stuck = true
					break
				}
				if !open {
					r.closed = true
				} else {
					r.out = append(r.out, u.id[b.Cid()])
				}
			}
			emit(fmt.Sprintf("NCancel %d", e.K), settle(), true)
		case "tick":
			// time passes: sample the want-list across several idle-tick / periodic-search periods of
			// the open sessions; every sample is an observation (a key that comes back shows up here)
			end := time.Now().Add(tickWindow)
			var last []int
			pred := on.wantlist()
			if follow == "off" {
				pred = off.wantlist()
			}
			for first := true; time.Now().Before(end); first = false {
				got := wl()
				for _, k := range lateExtras(minusLate(got), minusLate(pred)) {
					late[k] = true // a late want-block, not a re-broadcast
				}
				if first || !intsEq(got, last) {
					emit("NTick", got, true)
					last = got
				}
				time.Sleep(4 * time.Millisecond)
			}
			emit("NTick", wl(), true)
		}
	}
	if stuck {
		stuckCases++
	}
	outs := vh.ListOf(reqs, func(r *nreq) string { return nats(r.out) })
	var lateKeys []int
	for k := range late {
		lateKeys = append(lateKeys, k)
	}
	sort.Ints(lateKeys)
	term := fmt.Sprintf("(CNode %s %s %s)", vh.List(terms), outs, nats(lateKeys))
	if stuck || slow {
		t.Logf("node case with a missed deadline (stuck=%v, missed delivery=%v): %s", stuck, slow, term)
	}
	if slow {
		// A block that the requester asked the provider for did not arrive within the deadline although
		// the provider holds it. At this level that is the server or message-queue side losing or delaying
		// an answer (e.g. a want re-sent while the previous answer is being sent is merged into the
		// finished task; a block stored between the engine's size lookup and its ledger update) until the
		// periodic rebroadcast - races outside this property that show up under heavy machine load. The
		// history is then not a faithful run of the node model: it is counted, not evaluated.
		return "", map[string]any{"kind": "node", "events": evs, "inconclusive": "missed delivery"}
	}
	return term, map[string]any{"kind": "node", "events": evs}
}

// genNodeTicks: histories on long-lived sessions in which requests for keys that nobody holds (yet) are
// cancelled while their session stays open, and the want-list is then watched over several tick periods.
func genNodeTicks(e *vh.Env) []nev {
	r := e.Rng
	var evs []nev
	nreq := 0
	open := []int{}
	n := 3 + r.Intn(5)
	for i := 0; i < n; i++ {
		switch x := r.Intn(10); {
		case x < 4 || nreq == 0:
			nk := 1 + r.Intn(2)
			keys := make([]int, nk)
			for j := range keys {
				keys[j] = r.Intn(5)
			}
			evs = append(evs, nev{Kind: "start", Sess: r.Intn(2), Keys: keys})
			open = append(open, nreq)
			nreq++
		case x < 5:
			evs = append(evs, nev{Kind: "block", K: r.Intn(5)})
		case x < 6:
			evs = append(evs, nev{Kind: "tick"})
		default:
			if len(open) > 0 {
				j := r.Intn(len(open))
				evs = append(evs, nev{Kind: "cancel", K: open[j]}, nev{Kind: "tick"})
				open = append(open[:j], open[j+1:]...)
			}
		}
	}
	evs = append(evs, nev{Kind: "tick"})
	return evs
}

func genNode(e *vh.Env) []nev {
	r := e.Rng
	n := 3 + r.Intn(7)
	var evs []nev
	nreq := 0
	cancelled := map[int]bool{}
	for i := 0; i < n; i++ {
		switch x := r.Intn(10); {
		case x < 4 || nreq == 0:
			nk := 1 + r.Intn(3)
			keys := make([]int, nk)
			for j := range keys {
				keys[j] = r.Intn(5)
			}
			sess := r.Intn(2)
			if r.Intn(3) == 0 {
				sess = 10 + nreq // Exchange.GetBlocks: a session of its own
			}
			evs = append(evs, nev{Kind: "start", Sess: sess, Keys: keys})
			nreq++
		case x < 7:
			evs = append(evs, nev{Kind: "block", K: r.Intn(5)})
		default:
			k := r.Intn(nreq)
			if !cancelled[k] {
				cancelled[k] = true
				evs = append(evs, nev{Kind: "cancel", K: k})
			}
		}
	}
	return evs
}

// ================= system level =================

type sreqSpec struct {
	Node        int   `json:"node"`
	Sess        int   `json:"sess"` // 0 = its own session through Exchange.GetBlocks; >0 = shared session of that node
	Keys        []int `json:"keys"`
	CancelAfter int   `json:"cancel_after_blocks"` // -1 = never; n = after n deliveries (0 = right away)
	CancelDelay int   `json:"cancel_delay_ms"`     // with CancelAfter = -1 and > 0: cancel after that delay
	StartDelay  int   `json:"start_delay_ms"`
}

type sysSpec struct {
	Nodes   int        `json:"nodes"`
	Latency int        `json:"latency_ms"`
	Holders [][]int    `json:"holders"` // per key: the nodes that hold the block
	Reqs    []sreqSpec `json:"requests"`
}

type sreqObs struct {
	out       []int
	cancelled bool
	closed    bool
	avail     bool
	sessID    int
}

func sharesCancelled(spec sysSpec, i int) bool {
	a := spec.Reqs[i]
	if a.Sess == 0 {
		return false
	}
	for j, b := range spec.Reqs {
		if j == i || b.Node != a.Node || b.Sess != a.Sess || (b.CancelAfter < 0 && b.CancelDelay == 0) {
			continue
		}
		for _, k := range a.Keys {
			for _, k2 := range b.Keys {
				if k == k2 {
					return true
				}
			}
		}
	}
	return false
}

// overlapsOther: every key of request i is also asked for by another request of the same node (C37-3 may
// then delay it until the message queue's periodic rebroadcast).
func overlapsOther(spec sysSpec, i int) bool {
	a := spec.Reqs[i]
	for _, k := range a.Keys {
		found := false
		for j, b := range spec.Reqs {
			if j == i || b.Node != a.Node {
				continue
			}
			for _, k2 := range b.Keys {
				if k == k2 {
					found = true
				}
			}
		}
		if !found {
			return false
		}
	}
	return len(a.Keys) > 0
}

func runSys(t *testing.T, spec sysSpec) (string, map[string]any, []sreqObs) {
	u := newUniverse(len(spec.Holders), "s")
	vnet := tn.VirtualNetwork(delay.Fixed(time.Duration(spec.Latency) * time.Millisecond))
	ig := testinstance.NewTestInstanceGenerator(vnet, mockrouting.NewServer(), nil, []bitswap.Option{})
	defer ig.Close()
	inst := ig.Instances(spec.Nodes)
	ctx, cancelAll := context.WithCancel(context.Background())
	defer cancelAll()
	for k, hs := range spec.Holders {
		for _, h := range hs {
			if err := inst[h].Blockstore.Put(ctx, u.blks[k]); err != nil {
				t.Fatal(err)
			}
			inst[h].Exchange.NotifyNewBlocks(ctx, u.blks[k])
		}
	}
	type sk struct{ node, sess int }
	sessions := map[sk]exchange.Fetcher{}
	for _, r := range spec.Reqs {
		if r.Sess > 0 {
			if _, ok := sessions[sk{r.Node, r.Sess}]; !ok {
				sessions[sk{r.Node, r.Sess}] = inst[r.Node].Exchange.NewSession(ctx)
			}
		}
	}
	obs := make([]sreqObs, len(spec.Reqs))
	var wg sync.WaitGroup
	for i, r := range spec.Reqs {
		avail := true
		for _, k := range r.Keys {
			ok := false
			for _, h := range spec.Holders[k] {
				if h != r.Node {
					ok = true
				}
			}
			avail = avail && ok
		}
		obs[i].avail = avail
		obs[i].sessID = r.Sess
		if r.Sess == 0 {
			obs[i].sessID = 100 + i // its own session
		}
		wait := longWait
		if sharesCancelled(spec, i) {
			wait = shortWait
		} else if overlapsOther(spec, i) {
			wait = midWait
		}
		wg.Add(1)
		go func(i int, r sreqSpec, wait time.Duration) {
			defer wg.Done()
			o := &obs[i]
			time.Sleep(time.Duration(r.StartDelay) * time.Millisecond)
			rctx, cancel := context.WithCancel(ctx)
			defer cancel()
			var ch <-chan blocks.Block
			var err error
			if r.Sess == 0 {
				ch, err = inst[r.Node].Exchange.GetBlocks(rctx, u.cids(r.Keys))
			} else {
				ch, err = sessions[sk{r.Node, r.Sess}].GetBlocks(rctx, u.cids(r.Keys))
			}
			if err != nil {
				t.Errorf("GetBlocks: %v", err)
				return
			}
			var timer <-chan time.Time
			if r.CancelAfter < 0 && r.CancelDelay > 0 {
				timer = time.After(time.Duration(r.CancelDelay) * time.Millisecond)
			}
			if r.CancelAfter == 0 {
				o.cancelled = true
				cancel()
			}
			giveUp := time.After(wait)
			for {
				select {
				case b, ok := <-ch:
					if !ok {
						o.closed = true
						return
					}
					id, known := u.id[b.Cid()]
					if !known || string(b.RawData()) != string(u.blks[id].RawData()) {
						id = 999
					}
					o.out = append(o.out, id)
					if r.CancelAfter > 0 && len(o.out) == r.CancelAfter && !o.cancelled {
						o.cancelled = true
						cancel()
					}
				case <-timer:
					timer = nil
					o.cancelled = true
					cancel()
				case <-giveUp:
					// not delivered in time: end the request (it counts as not cancelled)
					cancel()
					giveUp = nil
					for {
						b, ok, to := recvBlock(ch, longWait)
						if to {
							return
						}
						if !ok {
							o.closed = true
							return
						}
						_ = b // blocks arriving after the deadline do not count as delivered in time
					}
				}
			}
		}(i, r, wait)
	}
	wg.Wait()
	// a cancelled request whose channel closed because everything had arrived anyway is a completed one
	for i := range obs {
		if obs[i].cancelled && len(dedup(obs[i].out)) == len(dedup(spec.Reqs[i].Keys)) {
			obs[i].cancelled = false
		}
	}
	cancelAll()
	ended := time.Now()
	requestedOn := make([][]int, spec.Nodes)
	for _, r := range spec.Reqs {
		requestedOn[r.Node] = append(requestedOn[r.Node], r.Keys...)
	}
	// every request has ended: every node's want-list must drain
	final := make([][]int, spec.Nodes)
	deadline := time.Now().Add(longWait)
	for n := 0; n < spec.Nodes; n++ {
		for {
			final[n] = u.ids(inst[n].Exchange.GetWantlist())
			if len(final[n]) == 0 || time.Now().After(deadline) {
				break
			}
			if time.Since(ended) > leakWait && subset(final[n], requestedOn[n]) {
				// keys of ended requests that do not go away: C37-2 (a want sent after the
				// cancel); no need to sit out the long deadline
				t.Logf("node %d keeps keys %v in its want-list (want-blocks %v, want-haves %v)", n, final[n],
					u.ids(inst[n].Exchange.GetWantBlocks()), u.ids(inst[n].Exchange.GetWantHaves()))
				break
			}
			time.Sleep(2 * time.Millisecond)
		}
	}
	rs := make([]string, len(obs))
	for i, o := range obs {
		rs[i] = fmt.Sprintf("(SR %d %d %s %s %s %s %s)", spec.Reqs[i].Node, o.sessID, nats(spec.Reqs[i].Keys), nats(o.out),
			vh.Bool(o.cancelled), vh.Bool(o.closed), vh.Bool(o.avail))
	}
	term := fmt.Sprintf("(CSys %s %s)", vh.List(rs), vh.ListOf(final, nats))
	return term, map[string]any{"kind": "system", "spec": spec}, obs
}

func genSys(e *vh.Env) sysSpec {
	r := e.Rng
	var s sysSpec
	s.Nodes = 2 + r.Intn(5)
	s.Latency = pickInt(e, []int{0, 0, 1, 3, 10, 20})
	m := 2 + r.Intn(8)
	s.Holders = make([][]int, m)
	for k := range s.Holders {
		switch x := r.Intn(10); {
		case x == 0: // held by nobody
			s.Holders[k] = []int{}
		case x < 7:
			s.Holders[k] = []int{r.Intn(s.Nodes)}
		default:
			a, b := r.Intn(s.Nodes), r.Intn(s.Nodes)
			if a == b {
				s.Holders[k] = []int{a}
			} else {
				s.Holders[k] = []int{a, b}
			}
		}
	}
	nreq := 1 + r.Intn(6)
	for i := 0; i < nreq; i++ {
		q := sreqSpec{Node: r.Intn(s.Nodes), CancelAfter: -1}
		if r.Intn(3) == 0 {
			q.Node = 0 // make overlapping requests on one node likely
		}
		if r.Intn(2) == 0 {
			q.Sess = 1 + r.Intn(2)
		}
		nk := 1 + r.Intn(5)
		if r.Intn(15) == 0 {
			nk = 0
		}
		q.Keys = []int{}
		for j := 0; j < nk; j++ {
			q.Keys = append(q.Keys, r.Intn(m)) // duplicates likely
		}
		avail := true
		for _, k := range q.Keys {
			ok := false
			for _, h := range s.Holders[k] {
				if h != q.Node {
					ok = true
				}
			}
			avail = avail && ok
		}
		switch x := r.Intn(10); {
		case !avail || x < 3: // a request that cannot complete is always cancelled at some point
			switch r.Intn(3) {
			case 0:
				q.CancelAfter = 0
			case 1:
				q.CancelAfter = 1 + r.Intn(len(dedup(q.Keys))+1)
				if !avail {
					q.CancelAfter = -1
					q.CancelDelay = 1 + r.Intn(40)
				}
			default:
				q.CancelDelay = 1 + r.Intn(40)
			}
		}
		q.StartDelay = pickInt(e, []int{0, 0, 0, 1, 5, 15})
		s.Reqs = append(s.Reqs, q)
	}
	return s
}

func pickInt(e *vh.Env, xs []int) int { return xs[e.Rng.Intn(len(xs))] }

// ================= entry point =================

const preamble = `From V Require Import model.M_C37.
Definition UO a b c d := {| uo_out := a; uo_closed := b; uo_cb := c; uo_want := d |}.
Definition SR n s k o c cl av := {| s_node := n; s_sess := s; s_keys := k; s_out := o; s_cancelled := c; s_closed := cl; s_avail := av |}.
Set Printing Width 1000000.`

func TestC37(t *testing.T) {
	e := vh.Load(t)
	st := vh.NewStats("unit: AsyncGetBlocks over the real PubSub, 1-3 requests, random publish/cancel sequences (duplicate, unrequested keys); " +
		"node: sequenced histories on a 2-node virtual network (shared/separate sessions, blocks appearing, cancels) with the want-list observed after every step; " +
		"system: 2-6 nodes, random placement, concurrent overlapping requests/sessions, duplicate keys, cancellation at random points, latency 0-20ms; " +
		"non-trivial = at least one block delivered and (unit/node) at least 3 events or (system) at least 2 requests; distinct by the case term")
	cs := vh.NewCases(e, preamble, "case", "check_case", 200)
	nodeTotal, nodeInconclusive := 0, 0

	// corpus: the witness of C37-1 and boundary histories
	nodeCorpus := [][]nev{
		// C37-1: A{0,3} and B{3} share a session; A is cancelled; block 3 appears afterwards: B must still get it
		{{Kind: "start", Sess: 1, Keys: []int{0, 3}}, {Kind: "start", Sess: 1, Keys: []int{3}}, {Kind: "cancel", K: 0}, {Kind: "block", K: 3}},
		// the same with separate sessions: B gets the block
		{{Kind: "start", Sess: 0, Keys: []int{0, 3}}, {Kind: "start", Sess: 1, Keys: []int{3}}, {Kind: "cancel", K: 0}, {Kind: "block", K: 3}},
		// duplicate keys, block present before the request, completion cleans the want-list
		{{Kind: "block", K: 1}, {Kind: "start", Sess: 0, Keys: []int{1, 1, 2}}, {Kind: "block", K: 2}, {Kind: "start", Sess: 0, Keys: []int{2}}},
		// cancel with nothing received
		{{Kind: "start", Sess: 0, Keys: []int{4}}, {Kind: "cancel", K: 0}, {Kind: "block", K: 4}},
		// a request on a long-lived session is cancelled while nobody has its keys: the keys must not come
		// back into the want-list when the session's idle tick / periodic search fires
		{{Kind: "start", Sess: 1, Keys: []int{5, 6}}, {Kind: "tick"}, {Kind: "cancel", K: 0}, {Kind: "tick"}},
		{{Kind: "start", Sess: 1, Keys: []int{5}}, {Kind: "start", Sess: 1, Keys: []int{6}}, {Kind: "cancel", K: 0}, {Kind: "tick"}, {Kind: "block", K: 6}, {Kind: "tick"}},
		// Exchange.GetBlocks (a session of its own): cancellation and completion both clean up
		{{Kind: "start", Sess: 10, Keys: []int{1, 2}}, {Kind: "start", Sess: 11, Keys: []int{2, 3}}, {Kind: "cancel", K: 0}, {Kind: "block", K: 2}, {Kind: "block", K: 3}},
	}
	for i, evs := range nodeCorpus {
		term, rp := runNode(t, evs)
		nodeTotal++
		if term == "" {
			nodeInconclusive++
			st.Count("node.inconclusive-missed-delivery")
			continue
		}
		rp["corpus"] = i
		cs.Add(term, rp)
		st.Case(term, true)
		st.Count("node")
		st.Sample(rp, 2)
	}
	unitCorpus := []struct {
		reqs [][]int
		evs  []uev
	}{
		{[][]int{{1, 1, 2}}, []uev{{Pub: true, K: 1}, {Pub: true, K: 1}, {Pub: true, K: 7}, {Pub: true, K: 2}}},
		{[][]int{{1, 2, 3}, {2}}, []uev{{Pub: true, K: 2}, {K: 0}, {Pub: true, K: 1}}},
		{[][]int{{}}, []uev{{Pub: true, K: 1}, {K: 0}}},
		{[][]int{{0}}, []uev{{K: 0, Sess: true}, {Pub: true, K: 0}}},
	}
	for _, c := range unitCorpus {
		term, rp := runUnit(t, c.reqs, c.evs)
		cs.Add(term, rp)
		st.Case(term, true)
		st.Count("unit")
	}

	// a reader that lags behind a large subscription must not hold up the other requests of the node
	for _, n := range []int{1, 16, 17, 35, 36, 64, 200} {
		for _, cancelLagging := range []bool{false, true} {
			term, rp := runLagUnit(t, n, cancelLagging)
			cs.Add(term, rp)
			st.Case(term, true)
			st.Count("lagging-reader.unit")
		}
	}
	for _, keys := range [][]int{{0}, {0, 1, 2}, {1, 1, 2}, {3, 0, 3, 2, 0}, seq(0, 20)} {
		term, rp := runWantPublishes(t, keys)
		cs.Add(term, rp)
		st.Case(term, true)
		st.Count("blocks-arrive-during-want")
	}
	for _, n := range []int{40, 100} {
		for _, cancelLagging := range []bool{false, true} {
			term, rp := runLagNode(t, n, cancelLagging)
			cs.Add(term, rp)
			st.Case(term, true)
			st.Count("lagging-reader.node")
		}
	}

	// C37-2 is a race inside the client (no deterministic schedule without hooks): the spec on
	// which it was first seen is run a number of times; a run that shows the leak is classified
	// as that finding, the others are ordinary cases
	leakSpec := sysSpec{Nodes: 6, Latency: 20, Holders: [][]int{{2}, {4}, {4}, {4, 1}, {2}, {2}, {0}, {}, {0, 4}},
		Reqs: []sreqSpec{{Node: 3, Sess: 2, Keys: []int{1, 6, 3, 4}, CancelAfter: -1, StartDelay: 5}}}
	for i := 0; i < e.Pick(12, 60); i++ {
		term, rp, _ := runSys(t, leakSpec)
		rp["corpus"] = "C37-2 attempt"
		cs.Add(term, rp)
		st.Case(fmt.Sprintf("%s#%d", term, i), true)
		st.Count("system.leak-attempt")
	}

	for i := 0; i < e.Pick(400, 6000); i++ {
		reqs, evs := genUnit(e)
		if stuckCases >= 3 {
			st.Count("unit.skipped-after-stuck-cases")
			continue
		}
		term, rp := runUnit(t, reqs, evs)
		cs.Add(term, rp)
		delivered := false
		for _, ev := range evs {
			if ev.Pub && ev.K < 6 {
				delivered = true
			}
		}
		st.Case(term, delivered && len(evs) >= 3)
		st.Count("unit")
		st.Count(fmt.Sprintf("unit.requests=%d", len(reqs)))
		st.Sample(rp, 3)
	}
	for i := 0; i < e.Pick(12, 100); i++ {
		evs := genNode(e)
		if stuckCases >= 3 {
			st.Count("node.skipped-after-stuck-cases")
			continue
		}
		term, rp := runNode(t, evs)
		nodeTotal++
		if term == "" {
			nodeInconclusive++
			st.Count("node.inconclusive-missed-delivery")
			continue
		}
		cs.Add(term, rp)
		st.Case(term, len(evs) >= 3)
		st.Count("node")
		for _, ev := range evs {
			st.Count("node.ev=" + ev.Kind)
		}
		st.Sample(rp, 4)
	}
	for i := 0; i < e.Pick(8, 60); i++ {
		evs := genNodeTicks(e)
		if stuckCases >= 3 {
			continue
		}
		term, rp := runNode(t, evs)
		nodeTotal++
		if term == "" {
			nodeInconclusive++
			st.Count("node.inconclusive-missed-delivery")
			continue
		}
		cs.Add(term, rp)
		st.Case(term, len(evs) >= 3)
		st.Count("node.with-ticks")
		for _, ev := range evs {
			st.Count("node.ev=" + ev.Kind)
		}
		st.Sample(rp, 5)
	}
	for i := 0; i < e.Pick(60, 500); i++ {
		spec := genSys(e)
		term, rp, obs := runSys(t, spec)
		cs.Add(term, rp)
		got := false
		for j, o := range obs {
			if len(o.out) > 0 {
				got = true
			}
			switch {
			case o.cancelled:
				st.Count("sys.request.cancelled")
			case len(dedup(o.out)) == len(dedup(spec.Reqs[j].Keys)):
				st.Count("sys.request.completed")
			default:
				st.Count("sys.request.not-completed")
			}
			if sharesCancelled(spec, j) {
				st.Count("sys.request.shares-session-with-cancelled")
			}
		}
		st.Case(term, got && len(spec.Reqs) >= 2)
		st.Count("system")
		st.Count(fmt.Sprintf("sys.nodes=%d", spec.Nodes))
		st.Count(fmt.Sprintf("sys.latency=%dms", spec.Latency))
		st.Sample(rp, 6)
	}
	if nodeInconclusive > 3 && nodeInconclusive*4 > nodeTotal {
		st.Violate(fmt.Sprintf("%d of %d node-level histories lost a delivery that the provider owed: blocks held by a connected node are systematically not delivered", nodeInconclusive, nodeTotal), "", map[string]any{"kind": "node"})
	}
	cs.Close()
	st.Write(e)
}
