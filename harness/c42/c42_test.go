// Correspondence harness for C42 (delegated routing over HTTP: IPIP-484 filters,
// record limits, JSON / NDJSON, IPNS GET / PUT).
//
//   - CIter: filters.ApplyFiltersToIter is run directly on slice iterators with raw
//     filter lists (positive, negated, "unknown", empty, upper-case, unregistered terms);
//   - CFind: the real client (routing/http/client) talks to an httptest server running
//     the real handler (routing/http/server) over a fake router, for FindProviders and
//     FindPeers, both response formats, limits -1..40, with and without the client's
//     local filtering;
//   - CPut / CPutGarbage / CGet: signed IPNS records (valid, wrong name, tampered
//     signature, tampered data, expired) through client.PutIPNS / client.GetIPNS.
//
// What the implementation answered is written into cases_*.v and evaluated in Coq
// against model/M_C42.v (model + IPIP-484 specification).
package c42

import (
	"bytes"
	"context"
	"encoding/json"
	"errors"
	"fmt"
	mrand "math/rand"
	"net/http"
	"net/http/httptest"
	"strings"
	"testing"
	"time"

	"github.com/ipfs/boxo/ipns"
	ipns_pb "github.com/ipfs/boxo/ipns/pb"
	"github.com/ipfs/boxo/path"
	"github.com/ipfs/boxo/routing/http/client"
	"github.com/ipfs/boxo/routing/http/filters"
	"github.com/ipfs/boxo/routing/http/server"
	"github.com/ipfs/boxo/routing/http/types"
	"github.com/ipfs/boxo/routing/http/types/iter"
	"github.com/ipfs/go-cid"
	ic "github.com/libp2p/go-libp2p/core/crypto"
	"github.com/libp2p/go-libp2p/core/peer"
	"github.com/libp2p/go-libp2p/core/routing"
	"github.com/multiformats/go-multiaddr"
	"github.com/prometheus/client_golang/prometheus"
	"google.golang.org/protobuf/proto"

	"verif/harness/vh"
)

// ---------- pools ----------

// the Go twin of M_C42.std_table
var stdTable = map[string]int{
	"ip4": 4, "tcp": 6, "udp": 273, "ip6": 41, "dns4": 54, "quic-v1": 461,
	"webtransport": 465, "ws": 477, "wss": 478, "tls": 448, "http": 480,
	"https": 443, "p2p": 421, "p2p-circuit": 290, "webrtc-direct": 280,
}

var addrStrings = []string{
	"/ip4/1.2.3.4/tcp/4001",
	"/ip4/1.2.3.4/udp/4001/quic-v1",
	"/ip4/1.2.3.4/udp/4001/quic-v1/webtransport",
	"/ip6/::1/tcp/4001",
	"/ip6/::1/udp/4001/quic-v1",
	"/ip4/8.8.8.8/tcp/443/tls/http",
	"/dns4/example.com/tcp/443/https",
	"/ip4/1.2.3.4/tcp/8080/ws",
	"/dns4/example.com/tcp/443/wss",
	"/ip4/1.2.3.4/tcp/80/http",
	"/ip4/1.2.3.4/udp/4001/webrtc-direct",
	"/ip4/9.9.9.9/udp/1234",
	"/ip4/5.6.7.8/tcp/4001/p2p/12D3KooWD3eckifWpRn9wQpMG9R9hX3sD158z7EqHWmweQAJU5SA/p2p-circuit",
	"/ip6/2001:db8::1/tcp/443/tls/ws",
}

// address filter terms: registered names, negations, "unknown", unregistered
// names, empty / bare "!" terms, upper-case variants, a term holding a comma
var addrTerms = []string{
	"tcp", "udp", "quic-v1", "webtransport", "ip4", "ip6", "ws", "wss", "tls", "http", "https",
	"p2p-circuit", "dns4", "webrtc-direct", "p2p",
	"!tcp", "!udp", "!ip6", "!ip4", "!quic-v1", "!p2p-circuit", "!tls", "!ws", "!webtransport",
	"unknown", "!unknown", "foo", "!foo", "", "!",
	"TCP", "!TCP", "Udp", "Unknown", "UNKNOWN", "!IP6", "tcp,!ip6", "a b",
}
var protoNames = []string{
	"transport-bitswap", "transport-ipfs-gateway-http", "transport-graphsync-filecoinv1",
	"Transport-Bitswap", "x", "", "unknown",
}
var protoTerms = []string{
	"transport-bitswap", "transport-ipfs-gateway-http", "transport-graphsync-filecoinv1",
	"unknown", "UNKNOWN", "Unknown", "TRANSPORT-BITSWAP", "Transport-Ipfs-Gateway-Http",
	"x", "X", "y", "", "x,unknown", "a&b=c",
}

type addrInfo struct {
	id    int
	ma    multiaddr.Multiaddr
	codes []int
}

type pools struct {
	addrs    []addrInfo
	addrByS  map[string]int
	peers    []peer.ID
	peerByS  map[string]int
	theCid   cid.Cid
	thePeer  peer.ID
	keys     []ic.PrivKey
	keyNames []ipns.Name
}

func mkPools(t *testing.T, seed int64) *pools {
	p := &pools{addrByS: map[string]int{}, peerByS: map[string]int{}}
	for i, s := range addrStrings {
		ma, err := multiaddr.NewMultiaddr(s)
		if err != nil {
			t.Fatalf("addr pool %q: %v", s, err)
		}
		p.addrs = append(p.addrs, addrInfo{id: i, ma: ma, codes: codesOf(ma)})
		p.addrByS[ma.String()] = i
	}
	kr := mrand.New(mrand.NewSource(seed ^ 0x5eed42))
	for i := 0; i < 28; i++ {
		_, pk, err := ic.GenerateEd25519Key(kr)
		if err != nil {
			t.Fatal(err)
		}
		id, err := peer.IDFromPublicKey(pk)
		if err != nil {
			t.Fatal(err)
		}
		p.peers = append(p.peers, id)
		p.peerByS[id.String()] = i
	}
	for i := 0; i < 3; i++ {
		sk, pk, err := ic.GenerateEd25519Key(kr)
		if err != nil {
			t.Fatal(err)
		}
		id, _ := peer.IDFromPublicKey(pk)
		p.keys = append(p.keys, sk)
		p.keyNames = append(p.keyNames, ipns.NameFromPeer(id))
	}
	p.theCid = cid.MustParse("bafkreifjjcie6lypi6ny7amxnfftagclbuxndqonfipmb64f2km2devei4")
	p.thePeer = p.peers[0]
	// the registry table of the model must agree with go-multiaddr for every name
	// that can reach ProtocolWithName (terms with and without "!", lower-cased or not)
	for _, term := range addrTerms {
		for _, v := range []string{term, strings.ToLower(term)} {
			for _, piece := range strings.Split(v, ",") {
				for _, n := range []string{piece, strings.TrimPrefix(piece, "!")} {
					if got, want := multiaddr.ProtocolWithName(n).Code, stdTable[n]; got != want {
						t.Fatalf("registry table of the model is out of date: %q has code %d, table says %d", n, got, want)
					}
				}
			}
		}
	}
	return p
}

func codesOf(ma multiaddr.Multiaddr) []int {
	var cs []int
	for _, pr := range ma.Protocols() {
		cs = append(cs, pr.Code)
	}
	return cs
}

// ---------- model-side values ----------

type mrec struct {
	id     int
	protos []string
	addrs  []maddr
}
type maddr struct {
	id    int
	codes []int
}
type mres struct {
	kind  string // peer bits other err nil
	rec   mrec   // peer, bits (protos[0] = protocol)
	other int
}

func (p *pools) addrCoq(a maddr) string {
	if a.id >= 0 && a.id < len(p.addrs) && eqInts(a.codes, p.addrs[a.id].codes) {
		return fmt.Sprintf("A%d", a.id)
	}
	return "(Build_addr " + vh.Z(int64(a.id)) + " " +
		vh.ListOf(a.codes, func(c int) string { return vh.Z(int64(c)) }) + ")"
}
func eqInts(a, b []int) bool {
	if len(a) != len(b) {
		return false
	}
	for i := range a {
		if a[i] != b[i] {
			return false
		}
	}
	return true
}
// pool strings are defined once in the preamble (S0, S1, ...): string literals are
// expensive for coqc to elaborate
var strConst = map[string]string{}
var strOrder []string

func init() {
	for _, l := range [][]string{addrTerms, protoNames, protoTerms} {
		for _, s := range l {
			if _, ok := strConst[s]; !ok {
				strConst[s] = fmt.Sprintf("S%d", len(strOrder))
				strOrder = append(strOrder, s)
			}
		}
	}
}
func strLit(s string) string {
	c, ok := vh.Str(s)
	if !ok {
		panic("non-ASCII string in a case: " + s)
	}
	return c + "%string"
}
func strCoq(s string) string {
	if n, ok := strConst[s]; ok {
		return n
	}
	return strLit(s)
}
func strsCoq(l []string) string { return vh.ListOf(l, strCoq) }
func (p *pools) addrsCoq(l []maddr) string { return vh.ListOf(l, p.addrCoq) }
func (p *pools) recCoq(r mrec) string {
	return "(Build_rec " + vh.Z(int64(r.id)) + " " + strsCoq(r.protos) + " " + p.addrsCoq(r.addrs) + ")"
}

// interner: every distinct result term of one case is bound once by a let
type interner struct {
	names map[string]string
	lets  []string
}

func newInterner() *interner { return &interner{names: map[string]string{}} }
func (in *interner) name(term string) string {
	if len(term) < 6 {
		return term
	}
	if n, ok := in.names[term]; ok {
		return n
	}
	n := fmt.Sprintf("v%d", len(in.lets))
	in.names[term] = n
	in.lets = append(in.lets, "let "+n+" := "+term+" in ")
	return n
}
func (in *interner) wrap(body string) string { return "(" + strings.Join(in.lets, "") + body + ")" }
func (p *pools) ressIn(in *interner, l []mres) string {
	return vh.ListOf(l, func(v mres) string { return in.name(p.resCoq(v)) })
}
func (p *pools) resCoq(v mres) string {
	switch v.kind {
	case "peer":
		return "(RVal (OPeer " + p.recCoq(v.rec) + "))"
	case "bits":
		return "(RVal (OBits " + vh.Z(int64(v.rec.id)) + " " + strCoq(v.rec.protos[0]) + " " + p.addrsCoq(v.rec.addrs) + "))"
	case "other":
		return "(RVal (OOther " + vh.Z(int64(v.other)) + "))"
	case "err":
		return "RErr"
	}
	return "RNil"
}

func (p *pools) preamble() string {
	var b strings.Builder
	b.WriteString("From V Require Import model.M_C42.\nOpen Scope Z_scope.\n")
	for _, a := range p.addrs {
		fmt.Fprintf(&b, "Definition A%d : addr := Build_addr %d %s.\n", a.id, a.id,
			vh.ListOf(a.codes, func(c int) string { return vh.Z(int64(c)) }))
	}
	for i, s := range strOrder {
		fmt.Fprintf(&b, "Definition S%d : string := %s.\n", i, strLit(s))
	}
	return b.String()
}

// ---------- building the real values ----------

func (p *pools) goAddrs(l []maddr) []types.Multiaddr {
	if l == nil {
		return nil
	}
	out := make([]types.Multiaddr, len(l))
	for i, a := range l {
		out[i] = types.Multiaddr{Multiaddr: p.addrs[a.id].ma}
	}
	return out
}

// a fresh value per call: applyFilters writes into the record it is handed
func (p *pools) goRecord(v mres) iter.Result[types.Record] {
	switch v.kind {
	case "peer":
		id := p.peers[v.rec.id]
		return iter.Result[types.Record]{Val: &types.PeerRecord{Schema: types.SchemaPeer, ID: &id,
			Protocols: append([]string(nil), v.rec.protos...), Addrs: p.goAddrs(v.rec.addrs)}}
	case "bits":
		id := p.peers[v.rec.id]
		//lint:ignore SA1019 deprecated record kind is still served
		return iter.Result[types.Record]{Val: &types.BitswapRecord{Schema: types.SchemaBitswap, ID: &id,
			Protocol: v.rec.protos[0], Addrs: p.goAddrs(v.rec.addrs)}}
	case "other":
		return iter.Result[types.Record]{Val: &types.UnknownRecord{Schema: "other",
			Bytes: []byte(fmt.Sprintf(`{"Schema":"other","N":%d}`, v.other))}}
	case "err":
		return iter.Result[types.Record]{Err: errors.New("router item error")}
	}
	return iter.Result[types.Record]{}
}
func (p *pools) goPeerResult(v mres) iter.Result[*types.PeerRecord] {
	switch v.kind {
	case "peer":
		r := p.goRecord(v)
		return iter.Result[*types.PeerRecord]{Val: r.Val.(*types.PeerRecord)}
	case "err":
		return iter.Result[*types.PeerRecord]{Err: errors.New("router item error")}
	}
	return iter.Result[*types.PeerRecord]{}
}

// ---------- projecting what the implementation yielded ----------

func (p *pools) obsAddrs(l []types.Multiaddr) []maddr {
	out := make([]maddr, 0, len(l))
	for _, a := range l {
		if a.Multiaddr == nil {
			out = append(out, maddr{id: -1})
			continue
		}
		id, ok := p.addrByS[a.Multiaddr.String()]
		if !ok {
			id = -2
		}
		out = append(out, maddr{id: id, codes: codesOf(a.Multiaddr)})
	}
	return out
}
func (p *pools) obsPeerID(id *peer.ID) int {
	if id == nil {
		return -1
	}
	if i, ok := p.peerByS[id.String()]; ok {
		return i
	}
	return -2
}
func (p *pools) obsRecord(val types.Record, err error) mres {
	if err != nil {
		return mres{kind: "err"}
	}
	switch r := val.(type) {
	case nil:
		return mres{kind: "nil"}
	case *types.PeerRecord:
		if r == nil {
			return mres{kind: "nil"}
		}
		if r.Schema != types.SchemaPeer {
			return mres{kind: "other", other: -7}
		}
		return mres{kind: "peer", rec: mrec{id: p.obsPeerID(r.ID), protos: append([]string{}, r.Protocols...), addrs: p.obsAddrs(r.Addrs)}}
	//lint:ignore SA1019 deprecated record kind is still served
	case *types.BitswapRecord:
		return mres{kind: "bits", rec: mrec{id: p.obsPeerID(r.ID), protos: []string{r.Protocol}, addrs: p.obsAddrs(r.Addrs)}}
	case *types.UnknownRecord:
		var v struct{ N *int }
		if json.Unmarshal(r.Bytes, &v) != nil || v.N == nil || r.Schema != "other" {
			return mres{kind: "other", other: -8}
		}
		return mres{kind: "other", other: *v.N}
	}
	return mres{kind: "other", other: -9}
}

// ---------- generators ----------

func pick[T any](r *mrand.Rand, l []T) T { return l[r.Intn(len(l))] }

func (p *pools) genRec(r *mrand.Rand) mrec {
	rec := mrec{id: r.Intn(len(p.peers))}
	switch np := r.Intn(6); {
	case np == 0: // no protocols at all (the "unknown" class)
	case np <= 3:
		rec.protos = []string{pick(r, protoNames[:5])}
	default:
		for k := 0; k < 2+r.Intn(2); k++ {
			rec.protos = append(rec.protos, pick(r, protoNames))
		}
	}
	na := r.Intn(5)
	if r.Intn(5) == 0 {
		na = 0 // no addresses (the "unknown" class of the address filter)
	}
	for k := 0; k < na; k++ {
		a := p.addrs[r.Intn(len(p.addrs))]
		rec.addrs = append(rec.addrs, maddr{id: a.id, codes: a.codes})
	}
	if na == 0 && r.Intn(2) == 0 {
		rec.addrs = []maddr{} // empty, non-nil
	}
	return rec
}

func (p *pools) genItems(r *mrand.Rand, peersOnly bool, n int) []mres {
	out := make([]mres, 0, n)
	for i := 0; i < n; i++ {
		x := r.Intn(20)
		switch {
		case x == 0:
			out = append(out, mres{kind: "err"})
		case x == 1:
			out = append(out, mres{kind: "nil"})
		case x == 2 && !peersOnly:
			out = append(out, mres{kind: "other", other: r.Intn(1000)})
		case x <= 4 && !peersOnly:
			rec := p.genRec(r)
			rec.protos = []string{pick(r, protoNames)}
			out = append(out, mres{kind: "bits", rec: rec})
		default:
			out = append(out, mres{kind: "peer", rec: p.genRec(r)})
		}
	}
	return out
}

// filter lists: empty often, otherwise 1..4 terms; `hostile` admits the odd terms
func genFilter(r *mrand.Rand, terms []string, nclean int, hostile bool) []string {
	if r.Intn(4) == 0 {
		if r.Intn(2) == 0 {
			return nil
		}
		return []string{}
	}
	n := 1 + r.Intn(3)
	if r.Intn(6) == 0 {
		n = 4
	}
	out := make([]string, 0, n)
	for i := 0; i < n; i++ {
		if hostile && r.Intn(3) == 0 {
			out = append(out, pick(r, terms))
		} else {
			out = append(out, pick(r, terms[:nclean]))
		}
	}
	return out
}

const (
	nCleanAddr  = 27 // addrTerms[:27]: registered names, negations, unknown, !unknown, foo
	nCleanProto = 4  // protoTerms[:4]
)

func nItems(r *mrand.Rand) int {
	switch x := r.Intn(10); {
	case x == 0:
		return r.Intn(3)
	case x <= 6:
		return 3 + r.Intn(8)
	case x <= 8:
		return 10 + r.Intn(10)
	}
	return 20 + r.Intn(11)
}

// ---------- fake router ----------

type fakeRouter struct {
	p        *pools
	items    []mres
	rerr     string // ok notfound fail
	ipnsRec  *ipns.Record
	ipnsErr  error
	putErr   error
	putCalls int
	putRaw   []byte
	limits   []int
}

func (f *fakeRouter) routerErr() error {
	switch f.rerr {
	case "notfound":
		return routing.ErrNotFound
	case "fail":
		return errors.New("router failure")
	}
	return nil
}
func (f *fakeRouter) FindProviders(ctx context.Context, c cid.Cid, limit int) (iter.ResultIter[types.Record], error) {
	f.limits = append(f.limits, limit)
	if err := f.routerErr(); err != nil {
		return nil, err
	}
	rs := make([]iter.Result[types.Record], len(f.items))
	for i, v := range f.items {
		rs[i] = f.p.goRecord(v)
	}
	return iter.FromSlice(rs), nil
}
func (f *fakeRouter) FindPeers(ctx context.Context, pid peer.ID, limit int) (iter.ResultIter[*types.PeerRecord], error) {
	f.limits = append(f.limits, limit)
	if err := f.routerErr(); err != nil {
		return nil, err
	}
	rs := make([]iter.Result[*types.PeerRecord], len(f.items))
	for i, v := range f.items {
		rs[i] = f.p.goPeerResult(v)
	}
	return iter.FromSlice(rs), nil
}
func (f *fakeRouter) ProvideBitswap(ctx context.Context, req *server.BitswapWriteProvideRequest) (time.Duration, error) {
	return 0, errors.New("unused")
}
func (f *fakeRouter) GetIPNS(ctx context.Context, name ipns.Name) (*ipns.Record, error) {
	return f.ipnsRec, f.ipnsErr
}
func (f *fakeRouter) PutIPNS(ctx context.Context, name ipns.Name, record *ipns.Record) error {
	f.putCalls++
	f.putRaw, _ = ipns.MarshalRecord(record)
	return f.putErr
}
func (f *fakeRouter) GetClosestPeers(ctx context.Context, key cid.Cid) (iter.ResultIter[*types.PeerRecord], error) {
	return nil, errors.New("unused")
}

// recording HTTP client handed to the routing client
type recClient struct {
	c           *http.Client
	contentType string
	status      int
	url         string
}

func (rc *recClient) Do(req *http.Request) (*http.Response, error) {
	rc.url = req.URL.String()
	resp, err := rc.c.Do(req)
	if err == nil {
		rc.contentType = resp.Header.Get("Content-Type")
		rc.status = resp.StatusCode
	}
	return resp, err
}

// ---------- one FindProviders / FindPeers exchange ----------

type findCase struct {
	peers     bool
	disableND bool
	limJSON   int
	limND     int
	streamReq bool
	local     bool
	defProto  bool // WithProtocolFilter not given: client.DefaultProtocolFilter applies
	ca, cp    []string
	rerr      string
	items     []mres
}

type findObs struct {
	err   bool
	fmt   string // json ndjson ?
	items []mres
}

func (p *pools) runFind(t *testing.T, fc findCase) findObs {
	fr := &fakeRouter{p: p, items: fc.items, rerr: fc.rerr}
	opts := []server.Option{server.WithPrometheusRegistry(prometheus.NewRegistry()),
		server.WithRecordsLimit(fc.limJSON), server.WithStreamingRecordsLimit(fc.limND)}
	if fc.disableND {
		opts = append(opts, server.WithStreamingResultsDisabled())
	}
	srv := httptest.NewServer(server.Handler(fr, opts...))
	defer srv.Close()
	rc := &recClient{c: srv.Client()}
	// the client sorts the slices it is given in place: hand it copies
	copts := []client.Option{client.WithHTTPClient(rc),
		client.WithAddrFilter(append([]string(nil), fc.ca...)),
		client.WithDisabledLocalFiltering(!fc.local)}
	if !fc.defProto {
		copts = append(copts, client.WithProtocolFilter(append([]string(nil), fc.cp...)))
	}
	if fc.streamReq {
		copts = append(copts, client.WithStreamResultsRequired())
	}
	cl, err := client.New(srv.URL, copts...)
	if err != nil {
		t.Fatalf("client.New: %v", err)
	}
	ctx, cancel := context.WithTimeout(context.Background(), 30*time.Second)
	defer cancel()
	var obs findObs
	if fc.peers {
		it, err := cl.FindPeers(ctx, p.thePeer)
		if err != nil {
			return findObs{err: true}
		}
		for guard := 0; it.Next(); guard++ {
			v := it.Val()
			if v.Err == nil && v.Val == nil {
				obs.items = append(obs.items, mres{kind: "nil"})
			} else {
				obs.items = append(obs.items, p.obsRecord(v.Val, v.Err))
			}
			if guard > 10000 {
				t.Fatal("client iterator does not terminate")
			}
		}
		it.Close()
	} else {
		it, err := cl.FindProviders(ctx, p.theCid)
		if err != nil {
			return findObs{err: true}
		}
		for guard := 0; it.Next(); guard++ {
			v := it.Val()
			obs.items = append(obs.items, p.obsRecord(v.Val, v.Err))
			if guard > 10000 {
				t.Fatal("client iterator does not terminate")
			}
		}
		it.Close()
	}
	switch {
	case strings.HasPrefix(rc.contentType, "application/json"):
		obs.fmt = "json"
	case strings.HasPrefix(rc.contentType, "application/x-ndjson"):
		obs.fmt = "ndjson"
	default:
		obs.fmt = "?"
	}
	for _, l := range fr.limits {
		if l != 0 {
			t.Fatalf("the server passed limit %d to the router (documented: always 0)", l)
		}
	}
	return obs
}

func (p *pools) findCoq(fc findCase, o findObs) string {
	cfg := fmt.Sprintf("(Build_cfg %s %s %s)", vh.Bool(fc.disableND), vh.Z(int64(fc.limJSON)), vh.Z(int64(fc.limND)))
	q := fmt.Sprintf("(Build_creq %s %s %s %s)",
		vh.Bool(fc.streamReq), vh.Bool(fc.local), strsCoq(fc.ca), strsCoq(fc.cp))
	in := newInterner()
	e := map[string]string{"ok": "RouterOk", "notfound": "RouterNotFound", "fail": "RouterFail"}[fc.rerr]
	obs := "None"
	if !o.err {
		f := "FJson"
		if o.fmt == "ndjson" {
			f = "FNdjson"
		}
		obs = "(Some (" + f + ", " + p.ressIn(in, o.items) + "))"
	}
	return in.wrap(vh.App("CFind", vh.Bool(fc.peers), cfg, q, e, p.ressIn(in, fc.items), obs))
}

func itemsReplay(l []mres) []any {
	out := make([]any, len(l))
	for i, v := range l {
		switch v.kind {
		case "peer", "bits":
			ads := make([]int, len(v.rec.addrs))
			for k, a := range v.rec.addrs {
				ads[k] = a.id
			}
			out[i] = map[string]any{"kind": v.kind, "peer": v.rec.id, "protocols": v.rec.protos, "addrs": ads}
		case "other":
			out[i] = map[string]any{"kind": "other", "n": v.other}
		default:
			out[i] = map[string]any{"kind": v.kind}
		}
	}
	return out
}

func (fc findCase) replay() map[string]any {
	return map[string]any{"kind": "find", "peers_endpoint": fc.peers, "disable_ndjson": fc.disableND,
		"records_limit": fc.limJSON, "streaming_records_limit": fc.limND, "stream_required": fc.streamReq,
		"local_filtering": fc.local, "filter_addrs": fc.ca, "filter_protocols": fc.cp, "default_protocol_filter": fc.defProto,
		"router": fc.rerr, "items": itemsReplay(fc.items), "addrs": "indices into addrStrings of harness/c42/c42_test.go"}
}

func genLimit(r *mrand.Rand, n int) int {
	switch x := r.Intn(12); {
	case x == 0:
		return 0
	case x == 1:
		return -1
	case x <= 5:
		return 1 + r.Intn(5)
	case x <= 8: // around the number of records
		l := n - 2 + r.Intn(5)
		if l < 0 {
			l = 0
		}
		return l
	}
	return r.Intn(41)
}

func (p *pools) genFind(r *mrand.Rand) findCase {
	fc := findCase{peers: r.Intn(2) == 0, disableND: r.Intn(2) == 0, streamReq: r.Intn(5) == 0, local: r.Intn(3) != 0}
	hostile := r.Intn(3) == 0
	fc.ca = genFilter(r, addrTerms, nCleanAddr, hostile)
	fc.cp = genFilter(r, protoTerms, nCleanProto, hostile)
	if r.Intn(12) == 0 {
		fc.defProto, fc.cp = true, append([]string(nil), client.DefaultProtocolFilter...)
	}
	n := nItems(r)
	fc.items = p.genItems(r, fc.peers, n)
	fc.limJSON, fc.limND = genLimit(r, n), genLimit(r, n)
	switch x := r.Intn(25); {
	case x == 0:
		fc.rerr = "notfound"
	case x == 1:
		fc.rerr = "fail"
	default:
		fc.rerr = "ok"
	}
	return fc
}

func peerRes(id int, protos []string, p *pools, addrIDs ...int) mres {
	rec := mrec{id: id, protos: protos}
	for _, a := range addrIDs {
		rec.addrs = append(rec.addrs, maddr{id: a, codes: p.addrs[a].codes})
	}
	return mres{kind: "peer", rec: rec}
}

func (p *pools) corpusFind() []findCase {
	bs := []string{"transport-bitswap"}
	gw := []string{"transport-ipfs-gateway-http"}
	five := []mres{peerRes(1, bs, p, 0, 1), peerRes(2, gw, p, 5), peerRes(3, nil, p), peerRes(4, bs, p, 3, 4), peerRes(5, bs, p, 1, 2, 12)}
	base := findCase{limJSON: 20, limND: 0, local: true, rerr: "ok", items: five}
	var out []findCase
	add := func(f func(fc *findCase)) {
		fc := base
		f(&fc)
		out = append(out, fc)
	}
	// witness of C42-1 (fixed): upper-case address term, local filtering on (first case of every run)
	add(func(fc *findCase) { fc.ca = []string{"TCP"}; fc.cp = nil })
	add(func(fc *findCase) { fc.ca = []string{"TCP"}; fc.cp = nil; fc.local = false })
	add(func(fc *findCase) { fc.ca = nil; fc.cp = []string{"UNKNOWN"}; fc.peers = true })
	add(func(fc *findCase) { fc.ca = []string{""}; fc.cp = nil; fc.disableND = true })
	add(func(fc *findCase) { fc.ca = nil; fc.cp = nil })
	add(func(fc *findCase) { fc.ca = []string{"unknown"}; fc.cp = []string{"unknown"} })
	add(func(fc *findCase) { fc.ca = []string{"unknown", "quic-v1"}; fc.cp = []string{"unknown", "transport-bitswap"} })
	add(func(fc *findCase) { fc.ca = []string{"!tcp"}; fc.cp = nil; fc.disableND = true })
	add(func(fc *findCase) { fc.ca = []string{"!tcp", "quic-v1", "!p2p-circuit"}; fc.cp = bs; fc.peers = true })
	add(func(fc *findCase) { fc.ca = []string{"tcp"}; fc.cp = bs; fc.disableND = true; fc.limJSON = 2 })
	add(func(fc *findCase) { fc.ca = []string{"tcp"}; fc.cp = bs; fc.limND = 2; fc.limJSON = 1 })
	add(func(fc *findCase) { fc.ca = []string{"tcp"}; fc.cp = bs; fc.disableND = true; fc.limJSON = 3; fc.limND = 1; fc.peers = true })
	add(func(fc *findCase) { fc.ca = []string{"foo"}; fc.cp = nil })
	add(func(fc *findCase) { fc.ca = []string{"!foo"}; fc.cp = nil })
	add(func(fc *findCase) { fc.ca = []string{"!"}; fc.cp = []string{""} })
	add(func(fc *findCase) { fc.disableND = true; fc.streamReq = true })
	add(func(fc *findCase) { fc.rerr = "notfound"; fc.disableND = true })
	add(func(fc *findCase) { fc.rerr = "fail" })
	add(func(fc *findCase) {
		fc.ca = []string{"udp"}
		fc.cp = bs
		fc.items = []mres{{kind: "bits", rec: five[0].rec}, {kind: "err"}, {kind: "other", other: 7}, {kind: "nil"},
			{kind: "bits", rec: mrec{id: 9, protos: gw, addrs: five[0].rec.addrs}}, five[4]}
	})
	return out
}

// ---------- IPNS ----------

func (p *pools) mkIPNS(t *testing.T, r *mrand.Rand, kind string) (*ipns.Record, []byte) {
	val := path.FromCid(p.theCid)
	sk := p.keys[0]
	eol := time.Date(2100+r.Intn(50), 1, 1, 0, 0, 0, 0, time.UTC)
	switch kind {
	case "KWrongName":
		sk = p.keys[1+r.Intn(2)]
	case "KExpired":
		eol = time.Date(1990+r.Intn(30), 1, 1, 0, 0, 0, 0, time.UTC)
	}
	var opts []ipns.Option
	if r.Intn(2) == 0 {
		opts = append(opts, ipns.WithV1Compatibility(false))
	}
	rec, err := ipns.NewRecord(sk, val, uint64(r.Intn(1000)), eol, time.Duration(r.Intn(3600))*time.Second, opts...)
	if err != nil {
		t.Fatalf("ipns.NewRecord: %v", err)
	}
	raw, err := ipns.MarshalRecord(rec)
	if err != nil {
		t.Fatal(err)
	}
	if kind == "KBadSig" || kind == "KBadData" {
		var pb ipns_pb.IpnsRecord
		if err := proto.Unmarshal(raw, &pb); err != nil {
			t.Fatal(err)
		}
		if kind == "KBadSig" {
			pb.SignatureV2[r.Intn(len(pb.SignatureV2))] ^= byte(1 + r.Intn(255))
		} else {
			// change one character of the value inside the signed DAG-CBOR map (stays well-formed)
			i := bytes.Index(pb.Data, []byte("/ipfs/baf"))
			if i < 0 {
				t.Fatal("value not found in record data")
			}
			pb.Data[i+9+r.Intn(20)] ^= 1
		}
		raw, err = proto.Marshal(&pb)
		if err != nil {
			t.Fatal(err)
		}
		rec, err = ipns.UnmarshalRecord(raw)
		if err != nil {
			t.Fatalf("tampered record no longer parses: %v", err)
		}
	}
	return rec, raw
}

var ikinds = []string{"KValid", "KWrongName", "KBadSig", "KExpired", "KBadData"}

func (p *pools) ipnsServer(fr *fakeRouter) (*httptest.Server, *client.Client, error) {
	srv := httptest.NewServer(server.Handler(fr, server.WithPrometheusRegistry(prometheus.NewRegistry())))
	cl, err := client.New(srv.URL, client.WithHTTPClient(srv.Client()))
	return srv, cl, err
}

// ---------- the test ----------

func TestC42(t *testing.T) {
	e := vh.Load(t)
	r := e.Rng
	p := mkPools(t, e.Seed)
	st := vh.NewStats("CIter: filters.ApplyFiltersToIter on slice iterators of 0..30 peer/bitswap/unknown-schema/error/nil results with raw filter lists; " +
		"CFind: real client against an httptest server with a fake router, FindProviders and FindPeers, JSON and NDJSON, limits -1..40, local filtering on/off; " +
		"CPut/CGet: IPNS records through client.PutIPNS/GetIPNS. Non-trivial (CIter/CFind) = some filter is set and the output differs from the input " +
		"(a record dropped, an address list trimmed, or the limit cut the list); IPNS cases are non-trivial when the record is not the plain valid one; distinct by full case")
	cs := vh.NewCases(e, p.preamble(), "case", "check_case", 250)
	ctx := context.Background()

	changed := func(in, out []mres) bool {
		if len(in) != len(out) {
			return true
		}
		for i := range in {
			if len(in[i].rec.addrs) != len(out[i].rec.addrs) {
				return true
			}
		}
		return false
	}

	// --- CFind ---
	corpus := p.corpusFind()
	nFind := e.Pick(300, 4000)
	for i := 0; i < nFind; i++ {
		var fc findCase
		if i < len(corpus) {
			fc = corpus[i]
		} else {
			fc = p.genFind(r)
		}
		o := p.runFind(t, fc)
		term := p.findCoq(fc, o)
		rp := fc.replay()
		cs.Add(term, rp)
		st.Case(term, (len(fc.ca) > 0 || len(fc.cp) > 0) && !o.err && changed(fc.items, o.items))
		ep := "providers"
		if fc.peers {
			ep = "peers"
		}
		st.Count("find/" + ep + "/" + map[bool]string{true: "error", false: o.fmt}[o.err])
		st.Count(fmt.Sprintf("find/local=%v", fc.local))
		if len(fc.ca) > 0 {
			st.Count("find/addr-filter")
		}
		if len(fc.cp) > 0 {
			st.Count("find/protocol-filter")
		}
		if !o.err && (fc.limJSON > 0 && o.fmt == "json" && len(o.items) == fc.limJSON || fc.limND > 0 && o.fmt == "ndjson" && len(o.items) == fc.limND) {
			st.Count("find/limit-reached")
		}
		st.Sample(rp, 3)
	}

	// --- CIter ---
	nIter := e.Pick(380, 6000)
	for i := 0; i < nIter; i++ {
		hostile := r.Intn(3) == 0
		fa := genFilter(r, addrTerms, nCleanAddr, hostile)
		fp := genFilter(r, protoTerms, nCleanProto, hostile)
		items := p.genItems(r, false, nItems(r))
		rs := make([]iter.Result[types.Record], len(items))
		for k, v := range items {
			rs[k] = p.goRecord(v)
		}
		it := filters.ApplyFiltersToIter(iter.FromSlice(rs), fa, fp)
		var obs []mres
		for guard := 0; it.Next(); guard++ {
			v := it.Val()
			obs = append(obs, p.obsRecord(v.Val, v.Err))
			if guard > 10000 {
				t.Fatal("filtered iterator does not terminate")
			}
		}
		it.Close()
		in := newInterner()
		term := in.wrap(vh.App("CIter", strsCoq(fa), strsCoq(fp), p.ressIn(in, items), p.ressIn(in, obs)))
		rp := map[string]any{"kind": "iter", "filter_addrs": fa, "filter_protocols": fp, "items": itemsReplay(items), "addrs": "indices into addrStrings of harness/c42/c42_test.go"}
		cs.Add(term, rp)
		st.Case(term, (len(fa) > 0 || len(fp) > 0) && changed(items, obs))
		st.Count("iter")
		for _, f := range fa {
			switch {
			case f == "unknown":
				st.Count("iter/addr-term/unknown")
			case strings.HasPrefix(f, "!"):
				st.Count("iter/addr-term/negated")
			default:
				st.Count("iter/addr-term/positive")
			}
		}
		st.Sample(rp, 5)
	}

	// --- IPNS ---
	nIpns := e.Pick(30, 300)
	for i := 0; i < nIpns; i++ {
		kind := ikinds[i%len(ikinds)]
		name := p.keyNames[0]
		rec, raw := p.mkIPNS(t, r, kind)
		// by construction: only KValid validates against the name
		if got := ipns.ValidateWithName(rec, name) == nil; got != (kind == "KValid") {
			st.Violate(fmt.Sprintf("ipns.ValidateWithName disagrees with how the %s record was built", kind), "", map[string]any{"kind": kind})
		}
		// PUT
		routerFails := r.Intn(4) == 0
		fr := &fakeRouter{p: p}
		if routerFails {
			fr.putErr = errors.New("router put failure")
		}
		srv, cl, err := p.ipnsServer(fr)
		if err != nil {
			t.Fatal(err)
		}
		perr := cl.PutIPNS(ctx, name, rec)
		same := fr.putCalls > 0 && bytes.Equal(fr.putRaw, raw)
		term := vh.App("CPut", kind, vh.Bool(routerFails), vh.Bool(perr != nil), vh.Bool(fr.putCalls > 0), vh.Bool(same))
		rp := map[string]any{"kind": "ipns-put", "record": kind, "router_fails": routerFails, "raw_hex": fmt.Sprintf("%x", raw)}
		cs.Add(term, rp)
		st.Case(term, kind != "KValid")
		st.Count("ipns/put/" + kind)
		srv.Close()

		// GET
		fr = &fakeRouter{p: p, ipnsRec: rec}
		src := vh.App("GRecord", kind)
		switch i % 11 {
		case 9:
			fr.ipnsRec, fr.ipnsErr, src = nil, routing.ErrNotFound, "GNotFound"
		case 10:
			fr.ipnsRec, fr.ipnsErr, src = nil, errors.New("router get failure"), "GFail"
		}
		srv, cl, err = p.ipnsServer(fr)
		if err != nil {
			t.Fatal(err)
		}
		got, gerr := cl.GetIPNS(ctx, name)
		og, sameG := "GotError", false
		switch {
		case gerr == nil && got != nil:
			og = "GotRecord"
			b, _ := ipns.MarshalRecord(got)
			sameG = bytes.Equal(b, raw)
		case errors.Is(gerr, routing.ErrNotFound):
			og = "GotNotFound"
		}
		term = vh.App("CGet", src, og, vh.Bool(sameG))
		rp = map[string]any{"kind": "ipns-get", "source": src, "raw_hex": fmt.Sprintf("%x", raw)}
		cs.Add(term, rp)
		st.Case(term, src != "(GRecord KValid)")
		st.Count("ipns/get/" + og)
		srv.Close()

		// raw PUT of bytes that are not a record
		if i%4 == 0 {
			var body []byte
			switch (i / 4) % 3 {
			case 0:
				body = make([]byte, 1+r.Intn(64))
				r.Read(body)
				body[0] = 0xff // an invalid protobuf tag
			case 1:
				body = raw[:1+r.Intn(len(raw)/2)] // truncated record
			case 2:
				body = nil
			}
			fr = &fakeRouter{p: p}
			srv = httptest.NewServer(server.Handler(fr, server.WithPrometheusRegistry(prometheus.NewRegistry())))
			req, _ := http.NewRequest(http.MethodPut, srv.URL+"/routing/v1/ipns/"+name.String(), bytes.NewReader(body))
			req.Header.Set("Content-Type", "application/vnd.ipfs.ipns-record")
			resp, err := srv.Client().Do(req)
			if err != nil {
				t.Fatal(err)
			}
			resp.Body.Close()
			if _, uerr := ipns.UnmarshalRecord(body); uerr == nil {
				srv.Close()
				continue // happened to parse: not a garbage case
			}
			term = vh.App("CPutGarbage", vh.Bool(resp.StatusCode != http.StatusOK), vh.Bool(fr.putCalls > 0))
			rp = map[string]any{"kind": "ipns-put-garbage", "body_hex": fmt.Sprintf("%x", body)}
			cs.Add(term, rp)
			st.Case(term, true)
			st.Count("ipns/put-garbage")
			srv.Close()
		}
	}

	cs.Close()
	st.Write(e)
}
