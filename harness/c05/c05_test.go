// Correspondence harness for C05 (blockservice getBlock / getBlocks against an adversarial exchange).
//
// The REAL blockservice is driven one operation at a time over a logging wrapper of the real
// blockstore and a scripted fake exchange.Interface / exchange.SessionExchange (package
// verif/harness/c04/bsvc, shared with C04).  Per operation the case records: the request, what the
// exchange answered (honest: any ordered subset of the misses; hostile: unrequested blocks, blocks
// with the same multihash under another codec/version, requested CIDs over corrupt bytes), the
// ordered log of blockstore / exchange calls, the result (each emitted block with "is in the
// blockstore at the moment it is received") and the blockstore contents.  Coq compares all of it
// with the model and evaluates the C05 specification on it.
package c05

import (
	"fmt"
	"testing"

	"github.com/ipfs/go-cid"
	mh "github.com/multiformats/go-multihash"

	"verif/harness/c04/bsvc"
	"verif/harness/vh"
)

// ordered subsets of 0..n-1 (all permutations of all subsets)
func orderedSubsets(n int) [][]int {
	var out [][]int
	var rec func(cur []int, used int)
	rec = func(cur []int, used int) {
		out = append(out, append([]int(nil), cur...))
		for i := 0; i < n; i++ {
			if used&(1<<i) == 0 {
				rec(append(cur, i), used|1<<i)
			}
		}
	}
	rec(nil, 0)
	return out
}

func TestC05(t *testing.T) {
	e := vh.Load(t)
	st := vh.NewStats("block-service histories (1..8 ops: AddBlock/AddBlocks/GetBlock/GetBlocks/DeleteBlock; request lists <= 10 keys with duplicates, " +
		"invalid CIDs, partially local data; plain/session/context-session paths and contexts carrying an embedded session of a SECOND block service (own store and exchange); exchange answers = every ordered subset of <= 4 misses (corpus), " +
		"random subsets/orders/duplicates, and hostile answers: unrequested blocks, same multihash under another CID, corrupt bytes; injected " +
		"blockstore/exchange faults) on the real blockservice. non-trivial = the exchange was asked at least once in the history; distinct by full case text")
	cs := vh.NewCases(e, "From V Require Import lib.BlockSvc model.M_C04 model.M_C05.\nOpen Scope Z_scope.", "case", "check_case", 250)
	u := bsvc.NewUniverse()
	g := &bsvc.Gen{R: e.Rng, U: u, P: bsvc.Profile{InvalidBias: 12, HostileBias: 45, FaultBias: 10, MaxOps: 8, MaxKeys: 10}}
	def := &bsvc.AL{Kind: 0}

	emit := func(cfg bsvc.Config, obs []*bsvc.Obs, kind string) {
		term := bsvc.WithNames(func() string {
			return vh.App("CHist", cfg.Coq(), vh.ListOf(obs, func(o *bsvc.Obs) string { return o.Coq() }))
		})
		steps := make([]map[string]any, len(obs))
		asked := false
		for i, o := range obs {
			steps[i] = o.Replay()
			st.Count("op:" + o.Op.Kind)
			if o.Fetched {
				asked = true
				st.Count("exchange-asked")
				if o.Op.Kind == "GetMany" && !o.XNErr {
					st.Count(fmt.Sprintf("batch-answer-len=%d", min(len(o.XN), 8)))
				}
			}
			if o.Op.Faults.Any() {
				st.Count("with-fault")
			}
			// harness self-check: the model's notion of "bytes hash to the CID" (digest id = payload id)
			// agrees with really re-hashing, wherever the digest is a real hash
			var outs []*bsvc.ABlk
			if o.Blk != nil {
				outs = append(outs, o.Blk)
			}
			for _, em := range o.Emitted {
				outs = append(outs, em.Blk)
			}
			for _, b := range outs {
				if rg, ok := bsvc.ReallyGood(b); ok && b.Cid.Len > 0 && rg != (b.Cid.Dig == b.Data) { // a 0-byte digest matches any bytes
					t.Fatalf("harness abstraction broken: block %s re-hash=%v", b, rg)
				}
				if b.Cid.Dig != b.Data {
					st.Count("corrupt-block-handed-to-caller")
				}
			}
		}
		rp := map[string]any{"kind": kind, "config": cfg.String(), "steps": steps}
		cs.Add(term, rp)
		st.Case(term, asked)
		st.Count(kind)
		st.Sample(rp, 6)
	}

	// ---- corpus ----
	a := u.Cid(1, cid.Raw, mh.SHA2_256, 32, 1)
	b := u.Cid(1, cid.Raw, mh.SHA2_256, 32, 2)
	c0 := u.Cid(0, cid.DagProtobuf, mh.SHA2_256, 32, 3)
	c1 := u.Cid(1, cid.DagProtobuf, mh.SHA2_256, 32, 3) // same multihash as c0
	d := u.Cid(1, cid.Raw, mh.SHA2_512, 64, 4)
	loc := u.Cid(1, cid.Raw, mh.BLAKE3, 32, 5)
	bad := u.Cid(1, cid.Raw, mh.MD5, 16, 6)
	g.Pool = []*bsvc.ACid{a, b, c0, c1, d, loc, bad}
	honest1 := func(c *bsvc.ACid) bsvc.X1 { return bsvc.X1{Blk: u.Block(c, c.Dig)} }
	honestN := func(ks []*bsvc.ACid) ([]*bsvc.ABlk, bool) {
		var r []*bsvc.ABlk
		for _, k := range ks {
			r = append(r, u.Block(k, k.Dig))
		}
		return r, false
	}
	ans1 := func(x *bsvc.ABlk) func(*bsvc.ACid) bsvc.X1 { return func(*bsvc.ACid) bsvc.X1 { return bsvc.X1{Blk: x} } }
	ansN := func(xs ...*bsvc.ABlk) func([]*bsvc.ACid) ([]*bsvc.ABlk, bool) {
		return func([]*bsvc.ACid) ([]*bsvc.ABlk, bool) { return xs, false }
	}
	for ex := 1; ex <= 2; ex++ {
		for path := 0; path < bsvc.NPaths; path++ {
			cfg := bsvc.Config{Al: def, CheckFirst: path != 1, Ex: ex, ExplicitDefault: path == 2}
			// finding C05-2 witness: requested CID over other bytes, single and batched; then a local re-read
			emit(cfg, bsvc.Run(u, cfg, []*bsvc.Op{
				{Kind: "Get", Path: path, Cid: a, On1: ans1(u.Block(a, 9)), OnN: honestN},
				{Kind: "Get", Path: path, Cid: a, On1: honest1, OnN: honestN},
			}), "corpus-corrupt")
			emit(cfg, bsvc.Run(u, cfg, []*bsvc.Op{
				{Kind: "GetMany", Path: path, Keys: []*bsvc.ACid{a, b}, On1: honest1, OnN: ansN(u.Block(b, 2), u.Block(a, 9))},
			}), "corpus-corrupt")
			// finding C05-1 witness (fixed): request {a}, exchange answers b
			emit(cfg, bsvc.Run(u, cfg, []*bsvc.Op{
				{Kind: "Get", Path: path, Cid: a, On1: ans1(u.Block(b, 2)), OnN: honestN},
				{Kind: "GetMany", Path: path, Keys: []*bsvc.ACid{a}, On1: honest1, OnN: ansN(u.Block(b, 2), u.Block(a, 1))},
			}), "corpus-unrequested")
			// same multihash, other CID version / codec; a rejected CID; a locally stored key pushed by the exchange
			emit(cfg, bsvc.Run(u, cfg, []*bsvc.Op{
				{Kind: "Add", Blk: u.Block(loc, 5), On1: honest1, OnN: honestN},
				{Kind: "Get", Path: path, Cid: c0, On1: ans1(u.Block(c1, 3)), OnN: honestN},
				{Kind: "GetMany", Path: path, Keys: []*bsvc.ACid{c1, loc, d, bad, c1}, On1: honest1,
					OnN: ansN(u.Block(c0, 3), u.Block(loc, 5), u.Block(bad, 6), u.Block(d, 4), u.Block(c1, 3), u.Block(d, 4))},
				{Kind: "Get", Path: path, Cid: c0, On1: honest1, OnN: honestN},
			}), "corpus-same-multihash")
		}
	}
	// a context that carries an embedded session of ANOTHER block service must not redirect the call:
	// local blocks are served locally (no exchange is asked), fetched ones are cached in the called service
	for ex := 1; ex <= 2; ex++ {
		for path := 3; path < bsvc.NPaths; path++ {
			cfg := bsvc.Config{Al: def, CheckFirst: true, Ex: ex}
			emit(cfg, bsvc.Run(u, cfg, []*bsvc.Op{
				{Kind: "Add", Blk: u.Block(loc, 5), On1: honest1, OnN: honestN},
				{Kind: "Get", Path: path, Cid: loc, On1: honest1, OnN: honestN},
				{Kind: "Get", Path: path, Cid: a, On1: honest1, OnN: honestN},
				{Kind: "GetMany", Path: path, Keys: []*bsvc.ACid{loc, b, a}, On1: honest1, OnN: honestN},
				{Kind: "Get", Path: 0, Cid: b, On1: honest1, OnN: honestN},
			}), "corpus-foreign-session-context")
		}
	}
	// every ordered subset of the misses, for 1..4 misses (plus one local key and a duplicate)
	miss := []*bsvc.ACid{a, b, c0, d}
	for n := 1; n <= 4; n++ {
		for i, sub := range orderedSubsets(n) {
			keys := append([]*bsvc.ACid{loc}, miss[:n]...)
			keys = append(keys, miss[0])
			var resp []*bsvc.ABlk
			for _, j := range sub {
				resp = append(resp, u.Block(miss[j], miss[j].Dig))
			}
			cfg := bsvc.Config{Al: def, CheckFirst: true, Ex: 1 + i%2}
			emit(cfg, bsvc.Run(u, cfg, []*bsvc.Op{
				{Kind: "Add", Blk: u.Block(loc, 5), On1: honest1, OnN: honestN},
				{Kind: "GetMany", Path: i % bsvc.NPaths, Keys: keys, On1: honest1, OnN: ansN(resp...)},
			}), "corpus-ordered-subset")
		}
	}
	// store / exchange failures on the fetch path
	for i, f := range []bsvc.Faults{{Put: []*bsvc.ACid{b}}, {Notify: []*bsvc.ACid{b}}, {Get: []*bsvc.ACid{loc}}, {Put: []*bsvc.ACid{a}}, {Notify: []*bsvc.ACid{a}}} {
		cfg := bsvc.Config{Al: def, CheckFirst: true, Ex: 1 + i%2}
		emit(cfg, bsvc.Run(u, cfg, []*bsvc.Op{
			{Kind: "Add", Blk: u.Block(loc, 5), On1: honest1, OnN: honestN},
			{Kind: "GetMany", Path: i % bsvc.NPaths, Keys: []*bsvc.ACid{a, loc, b, d}, On1: honest1, OnN: honestN, Faults: f},
			{Kind: "Get", Path: i % bsvc.NPaths, Cid: a, On1: honest1, OnN: honestN, Faults: f},
		}), "corpus-faults")
	}

	// ---- random histories ----
	n := e.Pick(900, 15000)
	for i := 0; i < n; i++ {
		g.NewPool(4 + g.R.Intn(8))
		cfg := g.Config()
		if g.R.Intn(3) != 0 {
			cfg.Al = def
		}
		emit(cfg, g.History(cfg), "history-random")
	}
	cs.Close()
	st.Write(e)
}
