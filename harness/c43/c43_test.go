// Correspondence harness for C43 (routing/http/types/iter): random compositions
// of the real constructors are driven with random Next/Val/Close sequences and
// drained; what they answered is written into cases_*.v and compared inside Coq
// with the model (model/M_C43.v) and with the list-level specification.
package c43

import (
	"fmt"
	"strings"
	"testing"

	"github.com/ipfs/boxo/routing/http/types/iter"

	"verif/harness/vh"
)

// ---- term language mirrored in M_C43.v ----
type term struct {
	kind  string // src json map filter limit cnt
	xs    []int
	rs    []jres
	fn    fn
	pr    pr
	n     int
	inner *term
	rec   bool // json only: the stream carries objects (type rec) instead of integers
}

// rec is a struct-typed stream element with optional parts. A value is identified with the integer
// a + 10*b + 100*m["x"] + 1000*m["y"] (each digit 0..9, 0 = the part is absent from the JSON text),
// so the same Coq term (Json [...]) describes the stream and every element must be decoded on its own.
type rec struct {
	A int            `json:"a,omitempty"`
	B *int           `json:"b,omitempty"`
	M map[string]int `json:"m,omitempty"`
}

func recText(v int) string {
	var parts []string
	if d := v % 10; d != 0 {
		parts = append(parts, fmt.Sprintf(`"a":%d`, d))
	}
	if d := v / 10 % 10; d != 0 {
		parts = append(parts, fmt.Sprintf(`"b":%d`, d))
	}
	var m []string
	if d := v / 100 % 10; d != 0 {
		m = append(m, fmt.Sprintf(`"x":%d`, d))
	}
	if d := v / 1000 % 10; d != 0 {
		m = append(m, fmt.Sprintf(`"y":%d`, d))
	}
	if len(m) > 0 {
		parts = append(parts, `"m":{`+strings.Join(m, ",")+`}`)
	}
	return "{" + strings.Join(parts, ",") + "}"
}
func recInt(r rec) int {
	v := r.A
	if r.B != nil {
		v += 10 * *r.B
	}
	return v + 100*r.M["x"] + 1000*r.M["y"]
}

type jres struct {
	ok bool
	v  int
}
type fn struct {
	kind string // add mul neg
	k    int
}
type pr struct {
	kind string // const even odd lt ge
	b    bool
	k    int
}

func (f fn) apply(x int) int {
	switch f.kind {
	case "add":
		return x + f.k
	case "mul":
		return x * f.k
	}
	return -x
}
func (p pr) apply(x int) bool {
	switch p.kind {
	case "const":
		return p.b
	case "even":
		return x%2 == 0
	case "odd":
		return x%2 != 0
	case "lt":
		return x < p.k
	}
	return p.k <= x
}
func (f fn) coq() string {
	switch f.kind {
	case "add":
		return vh.App("FAdd", vh.Z(int64(f.k)))
	case "mul":
		return vh.App("FMul", vh.Z(int64(f.k)))
	}
	return "FNeg"
}
func (p pr) coq() string {
	switch p.kind {
	case "const":
		return vh.App("PConst", vh.Bool(p.b))
	case "even":
		return "PEven"
	case "odd":
		return "POdd"
	case "lt":
		return vh.App("PLt", vh.Z(int64(p.k)))
	}
	return vh.App("PGe", vh.Z(int64(p.k)))
}
func (t *term) coq() string {
	switch t.kind {
	case "src":
		return vh.App("Src", vh.ListOf(t.xs, func(x int) string { return vh.Z(int64(x)) }))
	case "json":
		return vh.App("Json", vh.ListOf(t.rs, func(r jres) string {
			if r.ok {
				return vh.App("JOk", vh.Z(int64(r.v)))
			}
			return "JErr"
		}))
	case "map":
		return vh.App("MapI", t.fn.coq(), t.inner.coq())
	case "filter":
		return vh.App("FilterI", t.pr.coq(), t.inner.coq())
	case "limit":
		return vh.App("LimitI", vh.Z(int64(t.n)), t.inner.coq())
	}
	return vh.App("Cnt", t.inner.coq())
}
func (t *term) String() string { return t.coq() }

// ---- counting wrapper (the Go twin of the model's Cnt) ----
type counter struct{ nexts, trues, closes uint64 }
type cnt[T any] struct {
	inner iter.Iter[T]
	c     *counter
}

func (c *cnt[T]) Next() bool {
	c.c.nexts++
	b := c.inner.Next()
	if b {
		c.c.trues++
	}
	return b
}
func (c *cnt[T]) Val() T       { return c.inner.Val() }
func (c *cnt[T]) Close() error { c.c.closes++; return c.inner.Close() }

// view is a type-erased handle on a composed iterator.
type view struct {
	next  func() bool
	val   func() (int, bool)
	close func()
	ctrs  []*counter // outermost first
}

func jsonText(rs []jres, asRec bool) string {
	var b strings.Builder
	seps := []string{" ", "\n", "\t", "\n\n", " \n"}
	for i, r := range rs {
		if r.ok && asRec {
			b.WriteString(recText(r.v))
		} else if r.ok {
			fmt.Fprintf(&b, "%d", r.v)
		} else {
			b.WriteString("}") // a syntax error for the decoder
		}
		b.WriteString(seps[i%len(seps)])
	}
	return b.String()
}

// build composes the real iterators. A JSON source yields Result[int]; only
// Limit and the counting wrapper (both type-generic and Val-delegating) are put
// above it, exactly as the generator guarantees.
func build(t *term) view {
	isJSON := func(t *term) bool {
		for t.inner != nil {
			t = t.inner
		}
		return t.kind == "json"
	}
	if isJSON(t) {
		b := t
		for b.inner != nil {
			b = b.inner
		}
		if b.rec {
			return buildJSON(t, recInt)
		}
		return buildJSON(t, func(x int) int { return x })
	}
	var ctrs []*counter
	var rec_ func(t *term) iter.Iter[int]
	rec_ = func(t *term) iter.Iter[int] {
		switch t.kind {
		case "src":
			return iter.FromSlice(t.xs)
		case "map":
			f := t.fn
			return iter.Map(rec_(t.inner), f.apply)
		case "filter":
			p := t.pr
			return iter.Filter(rec_(t.inner), p.apply)
		case "limit":
			return iter.Limit(rec_(t.inner), t.n)
		case "cnt":
			c := &counter{}
			ctrs = append(ctrs, c)
			return &cnt[int]{inner: rec_(t.inner), c: c}
		}
		panic("int chain: " + t.kind)
	}
	it := rec_(t)
	return view{next: it.Next, val: func() (int, bool) { return it.Val(), false },
		close: func() { it.Close() }, ctrs: ctrs}
}

// buildJSON composes Limit and counting wrappers over the real JSON iterator with element type T.
func buildJSON[T any](t *term, toInt func(T) int) view {
	var ctrs []*counter
	var chain func(t *term) iter.Iter[iter.Result[T]]
	chain = func(t *term) iter.Iter[iter.Result[T]] {
		switch t.kind {
		case "json":
			return iter.FromReaderJSON[T](strings.NewReader(jsonText(t.rs, t.rec)))
		case "limit":
			return iter.Limit(chain(t.inner), t.n)
		case "cnt":
			c := &counter{}
			ctrs = append(ctrs, c)
			return &cnt[iter.Result[T]]{inner: chain(t.inner), c: c}
		}
		panic("json chain: " + t.kind)
	}
	it := chain(t)
	return view{next: it.Next, val: func() (int, bool) {
		r := it.Val()
		if r.Err != nil {
			return 0, true
		}
		return toInt(r.Val), false
	}, close: func() { it.Close() }, ctrs: ctrs}
}

func ctrsCoq(cs []*counter) string {
	return vh.ListOf(cs, func(c *counter) string {
		return "(" + vh.N(c.nexts) + ", " + vh.N(c.trues) + ", " + vh.N(c.closes) + ")"
	})
}

// ---- generators ----
func genTerm(e *vh.Env, maxDepth int) *term {
	r := e.Rng
	var base *term
	jsonBase := r.Intn(6) == 0
	if jsonBase {
		n := r.Intn(12)
		rs := make([]jres, n)
		asRec := r.Intn(2) == 0
		for i := range rs {
			rs[i] = jres{ok: r.Intn(9) != 0, v: r.Intn(81) - 20}
			if asRec {
				// sparse objects: each optional part present with probability 1/2
				v := 0
				for _, w := range []int{1, 10, 100, 1000} {
					if r.Intn(2) == 0 {
						v += w * (1 + r.Intn(9))
					}
				}
				rs[i].v = v
			}
		}
		base = &term{kind: "json", rs: rs, rec: asRec}
	} else {
		n := r.Intn(51)
		if r.Intn(8) == 0 {
			n = r.Intn(3)
		}
		xs := make([]int, n)
		for i := range xs {
			xs[i] = r.Intn(81) - 20
		}
		base = &term{kind: "src", xs: xs}
	}
	t := base
	depth := r.Intn(maxDepth + 1)
	for d := 0; d < depth; d++ {
		var k int
		if jsonBase {
			k = 2 + r.Intn(2) // limit or cnt only
		} else {
			k = r.Intn(4)
		}
		switch k {
		case 0:
			f := fn{kind: []string{"add", "mul", "neg"}[r.Intn(3)], k: r.Intn(7) - 3}
			t = &term{kind: "map", fn: f, inner: t}
		case 1:
			p := pr{kind: []string{"const", "even", "odd", "lt", "ge"}[r.Intn(5)], b: r.Intn(2) == 0, k: r.Intn(60) - 10}
			t = &term{kind: "filter", pr: p, inner: t}
		case 2:
			// limits -1..60, biased towards small positive ones; usually wrap the
			// inner iterator in a counter so read-ahead is observable
			n := r.Intn(62) - 1
			if r.Intn(2) == 0 {
				n = r.Intn(8)
			}
			in := t
			if r.Intn(4) != 0 && !(t.kind == "limit" && r.Intn(2) == 0) {
				in = &term{kind: "cnt", inner: t}
			}
			if t.kind == "limit" && r.Intn(3) == 0 {
				n = r.Intn(3) - 1 // directly nested limits with an unlimited one among them
			}
			t = &term{kind: "limit", n: n, inner: in}
		case 3:
			t = &term{kind: "cnt", inner: t}
		}
	}
	return t
}

func jsonTextOf(t *term) string {
	for t.inner != nil {
		t = t.inner
	}
	if t.kind != "json" {
		return ""
	}
	return jsonText(t.rs, t.rec)
}

func depthOf(t *term) int {
	d := 0
	for t.inner != nil {
		d++
		t = t.inner
	}
	return d
}
func hasBitingLimit(t *term) bool {
	for ; t != nil; t = t.inner {
		if t.kind == "limit" && t.n > 0 {
			return true
		}
	}
	return false
}

func pairsCoq(ys [][2]int) string {
	return vh.ListOf(ys, func(y [2]int) string { return "(" + vh.Z(int64(y[0])) + ", " + vh.Bool(y[1] != 0) + ")" })
}

func TestC43(t *testing.T) {
	e := vh.Load(t)
	st := vh.NewStats("random compositions (depth 0..4) of FromSlice/FromReaderJSON/Map/Filter/Limit + counting wrappers; " +
		"half drained with Next/Val then closed (CRead), half driven by random Next/Val/Close sequences (COps); " +
		"non-trivial = depth >= 2 and contains a positive limit or a filter; distinct by (term, ops)")
	cs := vh.NewCases(e, "From V Require Import model.M_C43.\nOpen Scope Z_scope.", "case", "check_case", 250)
	n := e.Pick(1500, 20000)
	// corpus first: hand-written boundary compositions
	corpus := []*term{
		{kind: "limit", n: 0, inner: &term{kind: "cnt", inner: &term{kind: "src", xs: []int{1, 2, 3}}}},
		{kind: "limit", n: -1, inner: &term{kind: "cnt", inner: &term{kind: "src", xs: []int{1, 2, 3}}}},
		{kind: "limit", n: 3, inner: &term{kind: "cnt", inner: &term{kind: "src", xs: []int{1, 2, 3}}}},
		{kind: "limit", n: 2, inner: &term{kind: "cnt", inner: &term{kind: "src", xs: []int{1, 2, 3}}}},
		{kind: "limit", n: 1, inner: &term{kind: "cnt", inner: &term{kind: "filter", pr: pr{kind: "even"}, inner: &term{kind: "cnt", inner: &term{kind: "src", xs: []int{1, 3, 4, 5, 6}}}}}},
		{kind: "limit", n: 2, inner: &term{kind: "cnt", inner: &term{kind: "json", rs: []jres{{true, 1}, {false, 0}, {true, 2}}}}},
		{kind: "cnt", inner: &term{kind: "json", rs: []jres{}}},
		// struct-typed elements: a later value omits parts an earlier one set; map keys differ
		{kind: "cnt", inner: &term{kind: "json", rec: true, rs: []jres{{true, 4321}, {true, 1}, {true, 0}, {true, 1020}, {true, 200}}}},
		{kind: "limit", n: 3, inner: &term{kind: "json", rec: true, rs: []jres{{true, 90}, {true, 7}, {false, 0}, {true, 5}}}},
		{kind: "filter", pr: pr{kind: "const", b: false}, inner: &term{kind: "cnt", inner: &term{kind: "src", xs: []int{1, 2, 3, 4}}}},
		// a limit directly over a limit (no wrapper in between): unlimited inner, tighter inner, tighter outer, unlimited outer
		{kind: "limit", n: 2, inner: &term{kind: "limit", n: 0, inner: &term{kind: "cnt", inner: &term{kind: "src", xs: []int{1, 2, 3, 4, 5}}}}},
		{kind: "limit", n: 2, inner: &term{kind: "limit", n: -1, inner: &term{kind: "cnt", inner: &term{kind: "src", xs: []int{1, 2, 3, 4, 5}}}}},
		{kind: "limit", n: 3, inner: &term{kind: "limit", n: 2, inner: &term{kind: "cnt", inner: &term{kind: "src", xs: []int{1, 2, 3, 4, 5}}}}},
		{kind: "limit", n: 2, inner: &term{kind: "limit", n: 3, inner: &term{kind: "cnt", inner: &term{kind: "src", xs: []int{1, 2, 3, 4, 5}}}}},
		{kind: "limit", n: 0, inner: &term{kind: "limit", n: 2, inner: &term{kind: "cnt", inner: &term{kind: "src", xs: []int{1, 2, 3, 4, 5}}}}},
		{kind: "map", fn: fn{kind: "add", k: 1}, inner: &term{kind: "map", fn: fn{kind: "mul", k: 2}, inner: &term{kind: "cnt", inner: &term{kind: "src", xs: []int{1, 2, 3}}}}},
		{kind: "filter", pr: pr{kind: "even"}, inner: &term{kind: "filter", pr: pr{kind: "ge", k: 3}, inner: &term{kind: "cnt", inner: &term{kind: "src", xs: []int{1, 2, 3, 4, 5, 6}}}}},
	}
	for i := 0; i < n; i++ {
		var tm *term
		if i < len(corpus) {
			tm = corpus[i]
		} else {
			tm = genTerm(e, 4)
		}
		nontrivial := depthOf(tm) >= 2 && (hasBitingLimit(tm) || strings.Contains(tm.coq(), "FilterI"))
		if i%2 == 0 || i < len(corpus) {
			v := build(tm)
			var ys [][2]int
			for guard := 0; v.next(); guard++ {
				x, er := v.val()
				b := 0
				if er {
					b = 1
				}
				ys = append(ys, [2]int{x, b})
				if guard > 10000 {
					t.Fatalf("iterator does not terminate: %s", tm)
				}
			}
			v.close()
			term := vh.App("CRead", tm.coq(), pairsCoq(ys), ctrsCoq(v.ctrs))
			rp := map[string]any{"kind": "read", "term": tm.coq(), "yielded": ys, "json_text": jsonTextOf(tm)}
			cs.Add(term, rp)
			st.Case("R|"+tm.coq(), nontrivial)
			st.Count("read")
			st.Count(fmt.Sprintf("depth=%d", depthOf(tm)))
			st.Sample(rp, 3)
		}
		if i%2 == 1 || i < len(corpus) {
			v := build(tm)
			nops := e.Rng.Intn(31)
			ops := make([]string, 0, nops)
			obs := make([]string, 0, nops)
			opn := make([]string, 0, nops)
			for k := 0; k < nops; k++ {
				switch x := e.Rng.Intn(20); {
				case x < 11:
					b := v.next()
					ops, obs, opn = append(ops, "ONext"), append(obs, vh.App("BNext", vh.Bool(b))), append(opn, "N")
				case x < 19:
					val, er := v.val()
					ops, obs, opn = append(ops, "OVal"), append(obs, vh.App("BVal", vh.Z(int64(val)), vh.Bool(er))), append(opn, "V")
				default:
					v.close()
					ops, obs, opn = append(ops, "OClose"), append(obs, "BClose"), append(opn, "C")
				}
			}
			term := vh.App("COps", tm.coq(), vh.List(ops), vh.List(obs), ctrsCoq(v.ctrs))
			rp := map[string]any{"kind": "ops", "term": tm.coq(), "ops": strings.Join(opn, ""), "json_text": jsonTextOf(tm)}
			cs.Add(term, rp)
			st.Case("O|"+tm.coq()+"|"+strings.Join(opn, ""), nontrivial && nops >= 3)
			st.Count("ops")
			st.Sample(rp, 6)
		}
	}
	cs.Close()
	st.Write(e)
}
