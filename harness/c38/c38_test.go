// Correspondence harness for C38 (tar/extractor.go, files/meta*.go).
//
// Every case builds, deep inside the test's private temp directory, a base directory
// B with a sibling "outside" tree (B/out) and a fresh or pre-populated extraction
// target (B/t), gives every object an explicit mode and modification time, snapshots
// B with lstat, extracts one generated archive with the real tar.Extractor, and
// snapshots B again.  The state before, the entries as archive/tar reads them, the
// error flag and the state after go to Coq, which replays the extractor model on the
// file-system model and checks that nothing outside the target changed.
//
// Safety: all symlink targets and names are generated so that they resolve inside the
// test's temp directory (B sits six directories below it), absolute targets are
// either below B or do not exist.
package c38

import (
	"archive/tar"
	"bytes"
	"fmt"
	"io"
	"math/rand"
	"os"
	"path/filepath"
	"sort"
	"strings"
	"syscall"
	"testing"
	"time"

	"golang.org/x/sys/unix"

	boxotar "github.com/ipfs/boxo/tar"

	"verif/harness/vh"
)

type ent struct {
	name    string
	typ     byte // tar typeflag
	mode    int64
	mtime   int64
	link    string
	content int
}

// bc renders a byte string: printable ASCII as a string literal, anything else as a list of Z
func bc(s string) string {
	if s != "" {
		if lit, ok := vh.Str(s); ok {
			return "(bs " + lit + "%string)"
		}
	}
	return vh.Bytes([]byte(s))
}

func pathCoq(comps []string) string { return vh.ListOf(comps, bc) }

// ---- snapshots ----
type obj struct {
	rel     string // path relative to R ("B", "B/out/d", ...)
	kind    string // dir file link
	mode    uint32 // unix permission bits incl. setuid/setgid/sticky
	mtime   int64
	target  string
	content int
}

func unixBits(m os.FileMode) uint32 {
	b := uint32(m.Perm())
	if m&os.ModeSetuid != 0 {
		b |= 0o4000
	}
	if m&os.ModeSetgid != 0 {
		b |= 0o2000
	}
	if m&os.ModeSticky != 0 {
		b |= 0o1000
	}
	return b
}

func contentID(b []byte) int {
	var id int
	if n, _ := fmt.Sscanf(string(b), "content-%d", &id); n == 1 {
		return id
	}
	if n, _ := fmt.Sscanf(string(b), "pre-%d", &id); n == 1 {
		return 1000 + id
	}
	return 999999
}

func snapshot(t *testing.T, R string) []obj {
	var out []obj
	err := filepath.Walk(filepath.Join(R, "B"), func(p string, info os.FileInfo, err error) error {
		if err != nil {
			return err
		}
		rel, _ := filepath.Rel(R, p)
		o := obj{rel: rel, mode: unixBits(info.Mode()), mtime: info.ModTime().Unix()}
		switch {
		case info.Mode()&os.ModeSymlink != 0:
			o.kind = "link"
			o.target, _ = os.Readlink(p)
			o.target = strings.TrimPrefix(o.target, R) // absolute targets below R are written relative to the model root
		case info.IsDir():
			o.kind = "dir"
		default:
			o.kind = "file"
			b, _ := os.ReadFile(p)
			o.content = contentID(b)
		}
		out = append(out, o)
		return nil
	})
	if err != nil {
		t.Fatalf("snapshot: %v", err)
	}
	sort.Slice(out, func(i, j int) bool { return out[i].rel < out[j].rel })
	return out
}

func (o obj) coq() string {
	k := "KDir"
	switch o.kind {
	case "file":
		k = fmt.Sprintf("(KFile %d)", o.content)
	case "link":
		k = "(KLink " + bc(o.target) + ")"
	}
	return "(" + pathCoq(strings.Split(o.rel, "/")) + ", Build_inode " + k + " " + fmt.Sprint(o.mode) + " (Some " + vh.Z(o.mtime) + "))"
}

func fsCoq(objs []obj) string {
	items := []string{"([], Build_inode KDir 493 (Some 0))"}
	for _, o := range objs {
		items = append(items, o.coq())
	}
	return vh.List(items)
}

func setMtime(t *testing.T, p string, sec int64) {
	ts := []unix.Timespec{{Sec: sec}, {Sec: sec}}
	if err := unix.UtimesNanoAt(unix.AT_FDCWD, p, ts, unix.AT_SYMLINK_NOFOLLOW); err != nil {
		t.Fatalf("utimes %s: %v", p, err)
	}
}

// ---- the world before extraction ----
type world struct {
	R      string
	target []string // components below R, e.g. B t
	kind   string
}

// populate creates B, B/out (the outside tree) and the target variant; every object gets an explicit
// mode and mtime.
func populate(t *testing.T, r *rand.Rand, root string, variant int) world {
	R := filepath.Join(root, "j1", "j2", "j3", "j4", "j5", "j6")
	B := filepath.Join(R, "B")
	must := func(err error) {
		if err != nil {
			t.Fatalf("populate: %v", err)
		}
	}
	must(os.MkdirAll(filepath.Join(B, "out", "d", "sub"), 0o755))
	must(os.WriteFile(filepath.Join(B, "out", "d", "f"), []byte("pre-1"), 0o644))
	must(os.WriteFile(filepath.Join(B, "out", "f"), []byte("pre-2"), 0o640))
	must(os.Symlink("f", filepath.Join(B, "out", "l")))
	must(os.Mkdir(filepath.Join(B, "out", "e"), 0o711))
	w := world{R: R, target: []string{"B", "t"}}
	T := filepath.Join(B, "t")
	switch variant {
	case 0:
		w.kind = "fresh"
	case 1, 2:
		w.kind = "populated"
		must(os.Mkdir(T, 0o755))
		must(os.WriteFile(filepath.Join(T, "ex"), []byte("pre-3"), 0o600))
		must(os.MkdirAll(filepath.Join(T, "d", "in"), 0o755))
		must(os.WriteFile(filepath.Join(T, "d", "in", "f"), []byte("pre-4"), 0o644))
		must(os.Symlink("../out/d", filepath.Join(T, "a")))
		must(os.Symlink("../out/f", filepath.Join(T, "b")))
		must(os.Symlink(filepath.Join(B, "out", "e"), filepath.Join(T, "e")))
		must(os.Symlink("nowhere", filepath.Join(T, "dd")))
		if variant == 2 {
			must(os.Mkdir(filepath.Join(T, "x y"), 0o700))
			must(os.Symlink(".", filepath.Join(T, "self")))
			// pre-existing siblings with derived names pointing outside
			must(os.Symlink("../out/f", filepath.Join(T, "ex.partial")))
			must(os.Symlink("../out/none2", filepath.Join(T, "n1.partial")))
			must(os.Symlink(filepath.Join(B, "out", "d", "f"), filepath.Join(T, "f.tmp")))
			must(os.Symlink("../../out/f", filepath.Join(T, "d", "in.partial")))
		}
	case 3:
		w.kind = "file"
		must(os.WriteFile(T, []byte("pre-5"), 0o644))
	case 4:
		w.kind = "symlink-to-outside-dir"
		must(os.Symlink("out/d", T))
	case 5:
		w.kind = "dangling-symlink"
		must(os.Symlink("out/none", T))
	case 7:
		w.kind = "symlink-to-outside-file"
		must(os.Symlink("out/f", T))
	case 6:
		w.kind = "nested"
		must(os.MkdirAll(filepath.Join(B, "p", "q"), 0o755))
		must(os.Symlink("../../out/d", filepath.Join(B, "p", "q", "lnk")))
		w.target = []string{"B", "p", "q", "t"}
	}
	// explicit modes and times, children before parents
	var all []string
	filepath.Walk(B, func(p string, info os.FileInfo, err error) error { all = append(all, p); return nil })
	sort.Sort(sort.Reverse(sort.StringSlice(all)))
	for i, p := range all {
		setMtime(t, p, 1000000000+int64(i))
	}
	return w
}

// ---- archive ----
func buildArchive(es []ent, R string) ([]byte, error) {
	var buf bytes.Buffer
	tw := tar.NewWriter(&buf)
	for _, e := range es {
		h := &tar.Header{Name: e.name, Typeflag: e.typ, Mode: e.mode, ModTime: time.Unix(e.mtime, 0), Linkname: e.link}
		var body []byte
		if e.typ == tar.TypeReg {
			body = []byte(fmt.Sprintf("content-%d", e.content))
			h.Size = int64(len(body))
		}
		if err := tw.WriteHeader(h); err != nil {
			return nil, err
		}
		if len(body) > 0 {
			if _, err := tw.Write(body); err != nil {
				return nil, err
			}
		}
	}
	if err := tw.Close(); err != nil {
		return nil, err
	}
	return buf.Bytes(), nil
}

// readBack lists the entries as tar.Reader (and therefore Extract) sees them.
func readBack(archive []byte, R string) ([]string, []string, bool) {
	tr := tar.NewReader(bytes.NewReader(archive))
	var terms, descs []string
	for {
		h, err := tr.Next()
		if err == io.EOF {
			return terms, descs, true
		}
		if err != nil {
			return nil, nil, false
		}
		typ := "TOther"
		content := 0
		switch h.Typeflag {
		case tar.TypeDir:
			typ = "TDir"
		case tar.TypeReg:
			typ = "TReg"
			b, err := io.ReadAll(tr)
			if err != nil {
				return nil, nil, false
			}
			content = contentID(b)
		case tar.TypeSymlink:
			typ = "TSym"
		}
		mt := "(Some " + vh.Z(h.ModTime.Unix()) + ")"
		if h.ModTime.IsZero() {
			mt = "None"
		}
		link := strings.TrimPrefix(h.Linkname, R)
		terms = append(terms, "(Build_entry "+bc(h.Name)+" "+typ+" "+vh.Z(h.Mode)+" "+mt+" "+bc(link)+" "+fmt.Sprint(content)+")")
		descs = append(descs, fmt.Sprintf("%s %q mode=%o mtime=%d link=%q", typ, h.Name, h.Mode, h.ModTime.Unix(), link))
	}
}

// ---- generators ----
var modes = []int64{0, 0, 0o700, 0o755, 0o777, 0o500, 0o1777, 0o4755, 0o2750, 0o111, 0o7777, 0o1000, 0o4000755, 0o644, 0o600}
var mtimes = []int64{0, 1, 1234567890, 1000000000, 2000000000, -1, 86400}

// derivedName returns a sibling name derived from x the way temporary / backup / lock files are named.
func derivedName(r *rand.Rand, x string) string {
	switch r.Intn(12) {
	case 0, 1, 2:
		return x + ".partial"
	case 3:
		return x + ".tmp"
	case 4:
		return x + "~"
	case 5:
		return "." + x + ".swp"
	case 6:
		return x + ".part"
	case 7:
		return x + ".new"
	case 8:
		return x + ".bak"
	case 9:
		return ".#" + x
	case 10:
		return x + ".lock"
	}
	return "#" + x + "#"
}

func genEntries(r *rand.Rand, w world) []ent {
	R := w.R
	up := func(k int) string { return strings.Repeat("../", k) }
	depthT := len(w.target) - 1 // components of the target below B
	// link targets for a link sitting k components below the target (k >= 1; k == 0: the target itself)
	targets := func(k int) []string {
		toB := up(k - 1 + depthT) // from the link's directory up to B
		if k == 0 {
			toB = up(depthT - 1)
		}
		return []string{
			toB + "out/d", toB + "out/d", toB + "out/e", toB + "out/f", toB + "out/none", toB + "out", toB + "out/d/sub",
			filepath.Join(R, "B", "out", "d"), filepath.Join(R, "B", "out", "e"), filepath.Join(R, "B", "out", "f"),
			"/nonexistent-c38/x", "a", "d", ".", "..", "", "nope", "dd", "d/in", "./d/../d",
		}
	}
	if r.Intn(6) == 0 {
		// sibling names derived from another entry's name (X.partial, X.tmp, X~, .X.swp, ...): a symlink with such a
		// name pointing outside the target, then a regular file (or directory/symlink) entry X next to it. An
		// extractor that stages its output under a predictable sibling name would write through the link.
		var es []ent
		es = append(es, ent{name: "r", typ: tar.TypeDir, mode: modes[r.Intn(len(modes))], mtime: mtimes[r.Intn(len(mtimes))]})
		p := []string{}
		for i := r.Intn(3); i > 0; i-- {
			p = append(p, []string{"d", "n1", "x y"}[r.Intn(3)])
			es = append(es, ent{name: "r/" + strings.Join(p, "/"), typ: tar.TypeDir, mode: 0o755, mtime: 1})
		}
		x := []string{"X", "f", "ex", "data.bin", "n2"}[r.Intn(5)]
		dir := "r/" + strings.Join(append(append([]string{}, p...), ""), "/")
		ts := targets(len(p) + 1)
		nl := 1 + r.Intn(3)
		for i := 0; i < nl; i++ {
			es = append(es, ent{name: dir + derivedName(r, x), typ: tar.TypeSymlink, mode: 0o777, mtime: mtimes[r.Intn(len(mtimes))], link: ts[r.Intn(11)]})
		}
		if r.Intn(3) == 0 {
			es = append(es, ent{name: dir + "other", typ: tar.TypeReg, mode: 0o600, mtime: 1, content: 3})
		}
		switch r.Intn(6) {
		case 0:
			es = append(es, ent{name: dir + x, typ: tar.TypeDir, mode: 0o700, mtime: 1})
		case 1:
			es = append(es, ent{name: dir + x, typ: tar.TypeSymlink, mode: 0o777, mtime: 1, link: "other"})
		default:
			es = append(es, ent{name: dir + x, typ: tar.TypeReg, mode: modes[r.Intn(len(modes))], mtime: mtimes[r.Intn(len(mtimes))], content: 42})
		}
		if r.Intn(3) == 0 {
			es = append(es, ent{name: dir + x, typ: tar.TypeReg, mode: 0o640, mtime: 2, content: 43})
		}
		return es
	}
	if r.Intn(5) == 0 {
		// the shape of finding C38-1 with random names, depths, targets and continuations: a directory with a mode,
		// replaced by a symlink (or a file), then a shorter-path directory / the same directory again / nothing
		names := []string{"d", "dd", "n1", "x y", "longer-name"}
		var es []ent
		es = append(es, ent{name: "r", typ: tar.TypeDir, mode: modes[r.Intn(len(modes))], mtime: mtimes[r.Intn(len(mtimes))]})
		p := []string{}
		depth := 1 + r.Intn(3)
		for i := 0; i < depth; i++ {
			p = append(p, names[r.Intn(len(names))])
			es = append(es, ent{name: "r/" + strings.Join(p, "/"), typ: tar.TypeDir, mode: []int64{0o700, 0o1777, 0o2711, 0o500, 0}[r.Intn(5)], mtime: mtimes[r.Intn(len(mtimes))]})
		}
		victim := "r/" + strings.Join(p, "/")
		ts := targets(len(p))
		if r.Intn(4) == 0 {
			es = append(es, ent{name: victim, typ: tar.TypeReg, mode: 0o644, mtime: 1, content: 5})
		} else {
			es = append(es, ent{name: victim, typ: tar.TypeSymlink, mode: 0o777, mtime: mtimes[r.Intn(len(mtimes))], link: ts[r.Intn(10)]})
		}
		switch r.Intn(5) {
		case 0:
			es = append(es, ent{name: "r/e", typ: tar.TypeDir, mode: 0o711, mtime: 1})
		case 1:
			es = append(es, ent{name: victim, typ: tar.TypeDir, mode: 0o700, mtime: 1})
		case 2:
			es = append(es, ent{name: victim + "/in", typ: tar.TypeReg, mode: 0o600, mtime: 1, content: 6})
		case 3:
			es = append(es, ent{name: "r/z", typ: tar.TypeSymlink, mode: 0o777, mtime: 1, link: ""})
		}
		return es
	}
	rootName := "r"
	if r.Intn(20) == 0 {
		rootName = []string{"", ".", "..", "r/x", "x y", "r.", "rr"}[r.Intn(7)]
	}
	comps := []string{"a", "b", "d", "dd", "e", "x y", "ex", "in", "f", "self", "n1", "n2"}
	// directories believed to exist below the target (so that most entries pass outputPath), and every path used so far
	dirs := [][]string{{}}
	if w.kind == "populated" {
		dirs = append(dirs, []string{"d"}, []string{"d", "in"})
	}
	var used [][]string
	var es []ent
	first := ent{name: rootName, typ: tar.TypeDir, mode: modes[r.Intn(len(modes))], mtime: mtimes[r.Intn(len(mtimes))]}
	switch r.Intn(14) {
	case 0:
		first.typ, first.content = tar.TypeReg, 1
	case 1:
		first.typ = tar.TypeSymlink
		first.link = targets(0)[r.Intn(len(targets(0)))]
	case 2:
		if r.Intn(3) == 0 {
			first.typ = tar.TypeLink
			first.link = "x"
		}
	}
	es = append(es, first)
	n := r.Intn(11)
	for i := 0; i < n; i++ {
		var p []string
		switch x := r.Intn(10); {
		case x < 4 && len(used) > 0:
			p = used[r.Intn(len(used))] // same name again, usually with another type
		case x < 9:
			par := dirs[r.Intn(len(dirs))]
			p = append(append([]string{}, par...), comps[r.Intn(len(comps))])
		default:
			k := 1 + r.Intn(3)
			for j := 0; j < k; j++ {
				p = append(p, comps[r.Intn(len(comps))])
			}
		}
		if len(p) > 0 && r.Intn(6) == 0 {
			// a sibling whose name is derived from this one
			p = append(append([]string{}, p[:len(p)-1]...), derivedName(r, p[len(p)-1]))
		}
		if len(p) > 4 {
			p = p[:4]
		}
		used = append(used, p)
		e := ent{name: rootName + "/" + strings.Join(p, "/"), mode: modes[r.Intn(len(modes))], mtime: mtimes[r.Intn(len(mtimes))], content: 10 + i}
		switch x := r.Intn(40); {
		case x < 18:
			e.typ = tar.TypeDir
			dirs = append(dirs, p)
		case x < 26:
			e.typ = tar.TypeReg
		case x < 39:
			e.typ = tar.TypeSymlink
			ts := targets(len(p))
			e.link = ts[r.Intn(len(ts))]
		default:
			e.typ = []byte{tar.TypeLink, tar.TypeFifo, tar.TypeChar}[r.Intn(3)]
			e.link = "x"
		}
		if r.Intn(40) == 0 {
			// hostile names (all stay inside the jail even if the extractor accepted them)
			e.name = []string{"/abs/x", rootName + "//a", rootName + "/./a", rootName + "/../x", rootName + "/a/../../x", "q/a", rootName,
				rootName + "/", rootName + "a/b", "../x", rootName + "/a/..", rootName + "/" + strings.Repeat("n", 256), rootName + "/..a", rootName + "/a/./b"}[r.Intn(14)]
		}
		es = append(es, e)
	}
	return es
}

// How the extraction root is spelled in Extractor.Path. All spellings denote the same cleaned path (which is what
// the model is given); an extractor that does not clean it hands `target/` or `target/.` to lstat/mkdir/chmod, which
// the kernel resolves THROUGH a symlink sitting at the target.
var spellings = []string{"clean", "trailing-slash", "trailing-double-slash", "doubled-separator", "dot-element", "dotdot-element", "trailing-slash-dot", "dot-and-trailing-slash"}

func spell(base string, k int) string {
	dir, last := filepath.Dir(base), filepath.Base(base)
	switch k {
	case 1:
		return base + "/"
	case 2:
		return base + "//"
	case 3:
		return dir + "//" + last
	case 4:
		return dir + "/./" + last
	case 5:
		return dir + "/../" + filepath.Base(dir) + "/" + last
	case 6:
		return base + "/."
	case 7:
		return dir + "/./" + last + "/"
	}
	return base
}

func runCase(t *testing.T, e *vh.Env, cs *vh.Cases, st *vh.Stats, variant int, gen func(w world) []ent, tag string) {
	k := 0
	if e.Rng.Intn(2) == 0 {
		k = e.Rng.Intn(len(spellings))
	}
	runCaseSpelled(t, e, cs, st, variant, k, gen, tag)
}

func runCaseSpelled(t *testing.T, e *vh.Env, cs *vh.Cases, st *vh.Stats, variant, spelling int, gen func(w world) []ent, tag string) {
	w := populate(t, e.Rng, t.TempDir(), variant)
	es := gen(w)
	archive, err := buildArchive(es, w.R)
	if err != nil {
		st.Count("skipped/archive-not-writable")
		return
	}
	terms, descs, ok := readBack(archive, w.R)
	if !ok {
		st.Count("skipped/archive-not-readable")
		return
	}
	before := snapshot(t, w.R)
	te := &boxotar.Extractor{Path: spell(filepath.Join(append([]string{w.R}, w.target...)...), spelling)}
	xerr := te.Extract(bytes.NewReader(archive))
	after := snapshot(t, w.R)
	term := "(CExt " + fsCoq(before) + " " + pathCoq([]string{"B"}) + " " + pathCoq(w.target) + " " + vh.List(terms) + " " +
		vh.Bool(xerr != nil) + " " + fsCoq(after) + ")"
	rp := map[string]any{"target": w.kind, "path_spelling": spellings[spelling], "entries": descs, "from": tag}
	st.Count("path/" + spellings[spelling])
	cs.Add(term, rp)
	nsym, ndir := 0, 0
	for _, d := range descs {
		if strings.HasPrefix(d, "TSym") {
			nsym++
		}
		if strings.HasPrefix(d, "TDir") {
			ndir++
		}
	}
	st.Case(w.kind+"|"+spellings[spelling]+"|"+strings.Join(descs, ";"), len(descs) >= 3 && nsym >= 1 && ndir >= 1)
	st.Count("target/" + w.kind)
	st.Count(fmt.Sprintf("entries=%d", len(descs)))
	if xerr != nil {
		st.Count("extract/error")
	} else {
		st.Count("extract/ok")
	}
	st.Sample(rp, 6)
}

func TestC38(t *testing.T) {
	e := vh.Load(t)
	syscall.Umask(0o022)
	if os.Geteuid() != 0 {
		t.Fatalf("the C38 harness must run as root (the model has no permission checks)")
	}
	st := vh.NewStats("archives of 1..10 entries (root directory/file/symlink/other first; directories, files, symlinks and unsupported " +
		"types over a small pool of paths up to 3 deep so that names repeat with different types; symlink targets relative and absolute " +
		"to directories/files outside the target, inside it, dangling, empty, dot and dot-dot; hostile names: absolute, empty elements, " +
		"dot, dot-dot, other root, over-long; symlinks whose name is derived from a later file entry's name (X.partial, X.tmp, X~, .X.swp, ...) " +
		"pointing outside, also pre-existing in the target; modes incl. 0, setuid/setgid/sticky and the 0x100000 bit; mtimes incl. 0 and negative) " +
		"extracted by the real Extractor into a fresh / pre-populated (files, directories, symlinks to outside, dangling, self) / file / " +
		"symlink (to an outside directory / outside file / nowhere) / nested target, with Extractor.Path spelled clean, with trailing " +
		"or doubled separators, with . and .. elements, and with lstat snapshots (type, mode, mtime, link target, content) of the whole base directory before and after. " +
		"non-trivial = >= 3 entries with a directory and a symlink; distinct by (target kind, entries)")
	cs := vh.NewCases(e, "From V Require Import lib.FsModel model.M_C38.\nOpen Scope Z_scope.", "case", "check_case", 100)

	D := func(n string, mode int64) ent { return ent{name: n, typ: tar.TypeDir, mode: mode, mtime: 1234567890} }
	F := func(n string, mode int64, c int) ent {
		return ent{name: n, typ: tar.TypeReg, mode: mode, mtime: 1234567890, content: c}
	}
	L := func(n, target string) ent { return ent{name: n, typ: tar.TypeSymlink, mode: 0o777, mtime: 1234567890, link: target} }
	corpus := []struct {
		variant int
		es      func(w world) []ent
	}{
		// a symlink named like a staging file of the next entry, pointing to an outside file / nowhere / absolute
		{0, func(w world) []ent { return []ent{D("r", 0o755), L("r/X.partial", "../out/f"), F("r/X", 0o600, 9)} }},
		{0, func(w world) []ent { return []ent{D("r", 0o755), L("r/X.partial", "../out/created"), F("r/X", 0o4755, 9)} }},
		{0, func(w world) []ent {
			return []ent{D("r", 0o755), D("r/d", 0o755), L("r/d/X.partial", filepath.Join(w.R, "B", "out", "d", "f")), L("r/d/X.tmp", "../../out/f"), F("r/d/X", 0o644, 9)}
		}},
		{2, func(w world) []ent { return []ent{D("r", 0o755), F("r/ex", 0o644, 9), F("r/n1", 0o644, 10), F("r/f", 0o600, 11), F("r/d/in", 0o600, 12)} }},
		// witness of finding C38-1: directory with a mode, then a symlink of the same name to an outside directory
		{0, func(w world) []ent { return []ent{D("r", 0o755), D("r/d", 0o700), L("r/d", "../out/d")} }},
		// the same through the early application in deferUpdate (a shorter path follows)
		{0, func(w world) []ent { return []ent{D("r", 0), D("r/dd", 0o700), L("r/dd", "../out/d"), D("r/e", 0o711)} }},
		// ... and on the error path: the directory entry comes again after the symlink
		{0, func(w world) []ent { return []ent{D("r", 0o755), D("r/d", 0o700), L("r/d", "../out/e"), D("r/d", 0o700)} }},
		// absolute target
		{0, func(w world) []ent {
			return []ent{D("r", 0o755), D("r/d", 0o1777), L("r/d", filepath.Join(w.R, "B", "out", "d"))}
		}},
		{0, func(w world) []ent { return []ent{D("r", 0o755), D("r/d", 0o700), F("r/d", 0o644, 7), L("r/x", "d")} }},
		{0, func(w world) []ent {
			return []ent{D("r", 0o750), D("r/a", 0o700), D("r/a/b", 0o711), F("r/a/b/f", 0o600, 1), L("r/a/l", "../../out/f"), F("r/a/l/x", 0o600, 2)}
		}},
		{1, func(w world) []ent { return []ent{D("r", 0o755), F("r/a/x", 0o644, 1)} }},
		{1, func(w world) []ent { return []ent{D("r", 0o755), D("r/a", 0o700)} }},
		{1, func(w world) []ent { return []ent{D("r", 0o755), F("r/a", 0o644, 1), L("r/b", "../out/d"), D("r/e", 0o700), D("r/dd", 0o700)} }},
		{3, func(w world) []ent { return []ent{F("r", 0o644, 1)} }},
		{4, func(w world) []ent { return []ent{F("r", 0o644, 1)} }},
		{4, func(w world) []ent { return []ent{D("r", 0o700), F("r/x", 0o644, 1)} }},
		{5, func(w world) []ent { return []ent{D("r", 0o700)} }},
		{1, func(w world) []ent { return []ent{L("r", "../out/d")} }},
		{1, func(w world) []ent { return []ent{F("..", 0o644, 1)} }},
		{0, func(w world) []ent { return []ent{D("r", 0o755), F("r/../x", 0o644, 1)} }},
		{0, func(w world) []ent { return []ent{D("r", 0o755), L("r/l", ""), D("r/z", 0o700)} }},
		{6, func(w world) []ent { return []ent{D("r", 0o755), D("r/d", 0o700), L("r/d", "../lnk")} }},
	}
	// directed, first for every seed: every spelling of the root x a target that is a symlink to an outside directory /
	// outside file / nowhere (and a plain fresh one) x a root-directory archive and a single-file archive
	for sp := range spellings {
		for _, variant := range []int{4, 7, 5, 0} {
			runCaseSpelled(t, e, cs, st, variant, sp, func(w world) []ent {
				return []ent{D("r", 0o700), F("r/x", 0o644, 1), D("r/sub", 0o711)}
			}, fmt.Sprintf("root-spelling/%s/dir-archive", spellings[sp]))
			runCaseSpelled(t, e, cs, st, variant, sp, func(w world) []ent { return []ent{F("r", 0o640, 2)} },
				fmt.Sprintf("root-spelling/%s/file-archive", spellings[sp]))
		}
	}
	for i, c := range corpus {
		runCaseSpelled(t, e, cs, st, c.variant, 0, c.es, fmt.Sprintf("corpus%d", i))
	}
	n := e.Pick(500, 5000)
	for i := 0; i < n; i++ {
		variant := []int{0, 0, 0, 1, 1, 1, 2, 2, 3, 4, 4, 5, 6, 6, 7}[e.Rng.Intn(15)]
		runCase(t, e, cs, st, variant, func(w world) []ent { return genEntries(e.Rng, w) }, "gen")
	}
	cs.Close()
	st.Write(e)
}
