// Correspondence harness for C03: verified reads.
//   - blockstore.ValidatingBlockstore over a backing datastore whose stored bytes
//     are corrupted behind its back (every single-byte flip, every truncation
//     length, extensions, foreign blocks, absence);
//   - filestore.FileManager / filestore.Filestore references (file and URL)
//     whose backing file / HTTP body is modified, truncated, extended, removed
//     or replaced by a directory after the reference was written.
//
// What Get answered is written into cases_*.v together with digests computed by
// an INDEPENDENT hash implementation (crypto/sha256, crypto/sha512,
// x/crypto/blake2b, the identity), and evaluated inside Coq against the model
// (model/M_C03.v) and the specification "bytes are handed out only if they hash
// to the requested CID; a changed/shrunk/vanished file is reported as corrupt".
package c03

import (
	"context"
	"crypto/sha256"
	"crypto/sha512"
	"errors"
	"fmt"
	"net/http"
	"net/http/httptest"
	"os"
	"path/filepath"
	"strconv"
	"strings"
	"testing"

	"github.com/ipfs/boxo/blockstore"
	dshelp "github.com/ipfs/boxo/datastore/dshelp"
	"github.com/ipfs/boxo/filestore"
	posinfo "github.com/ipfs/boxo/filestore/posinfo"
	blocks "github.com/ipfs/go-block-format"
	cid "github.com/ipfs/go-cid"
	ds "github.com/ipfs/go-datastore"
	dssync "github.com/ipfs/go-datastore/sync"
	ipld "github.com/ipfs/go-ipld-format"
	mh "github.com/multiformats/go-multihash"
	"golang.org/x/crypto/blake2b"

	"verif/harness/vh"
)

// ---------- independent hashing ----------

type form struct {
	name    string
	id      int // prefix id in the Coq cases
	version uint64
	codec   uint64
	mhtype  uint64
	mhlen   int  // -1 = full
	bad     bool // no digest can be computed for this prefix: Prefix().Sum fails
}

// CIDs whose hash cannot be recomputed: a digest longer than the function delivers, a multihash
// code nobody knows, codes that are in go-multihash's table but have no hasher registered.
var badForms = []form{
	{"v1raw-sha256-len33", 8, 1, cid.Raw, mh.SHA2_256, 33, true},
	{"v1raw-unknown-code", 9, 1, cid.Raw, 0x300001, 32, true},
	{"v1raw-keccak224-nohasher", 10, 1, cid.Raw, 0x1a, 28, true},
	{"v1pb-x11-nohasher", 11, 1, cid.DagProtobuf, 0x1100, 64, true},
	{"v1raw-blake2b256-len40", 12, 1, cid.Raw, mh.BLAKE2B_MIN + 31, 40, true},
}

// fakeDigest is the digest a bad-form CID carries: derived from the data so that the stored
// bytes look as plausible as possible (sha2-256 of the data, padded/cut to the advertised length).
func fakeDigest(f form, data []byte) []byte {
	s := sha256.Sum256(data)
	d := append([]byte{}, s[:]...)
	for len(d) < f.mhlen {
		d = append(d, byte(len(d)))
	}
	return d[:f.mhlen]
}

// wantOf is the digest inside the CID that is requested for data under a form.
func wantOf(f form, data []byte) []byte {
	if f.bad {
		return fakeDigest(f, data)
	}
	return indep(f, data)
}

// digOpt renders the independent digest of b under f as a Coq option: None when none exists.
func digOpt(f form, b []byte) string {
	if f.bad {
		return "None"
	}
	return "(Some " + lit(indep(f, b)) + ")"
}

var forms = []form{
	{"v0", 1, 0, cid.DagProtobuf, mh.SHA2_256, -1, false},
	{"v1raw-sha256", 2, 1, cid.Raw, mh.SHA2_256, -1, false},
	{"v1pb-sha256", 3, 1, cid.DagProtobuf, mh.SHA2_256, -1, false},
	{"v1raw-blake2b256", 4, 1, cid.Raw, mh.BLAKE2B_MIN + 31, -1, false},
	{"v1raw-sha512", 5, 1, cid.Raw, mh.SHA2_512, -1, false},
	{"v1raw-sha256-trunc20", 6, 1, cid.Raw, mh.SHA2_256, 20, false},
	{"v1raw-identity", 7, 1, cid.Raw, mh.IDENTITY, -1, false},
}

// indep computes the digest of data under a form WITHOUT go-multihash.
func indep(f form, data []byte) []byte {
	var d []byte
	switch f.mhtype {
	case mh.SHA2_256:
		s := sha256.Sum256(data)
		d = s[:]
	case mh.SHA2_512:
		s := sha512.Sum512(data)
		d = s[:]
	case mh.BLAKE2B_MIN + 31:
		s := blake2b.Sum256(data)
		d = s[:]
	case mh.IDENTITY:
		d = append([]byte{}, data...)
	default:
		panic("form")
	}
	if f.mhlen >= 0 {
		d = d[:f.mhlen]
	}
	return d
}

// mkCid builds the CID of data under a form through go-cid/go-multihash (the
// code path a user takes); its digest is cross-checked against indep.
func mkCid(t *testing.T, f form, data []byte) cid.Cid {
	if f.bad {
		h, err := mh.Encode(fakeDigest(f, data), f.mhtype)
		if err != nil {
			t.Fatal(err)
		}
		return cid.NewCidV1(f.codec, h)
	}
	h, err := mh.Sum(data, f.mhtype, f.mhlen)
	if err != nil {
		t.Fatal(err)
	}
	dm, err := mh.Decode(h)
	if err != nil {
		t.Fatal(err)
	}
	if string(dm.Digest) != string(indep(f, data)) {
		t.Fatalf("independent digest differs from go-multihash for %s", f.name)
	}
	if f.version == 0 {
		return cid.NewCidV0(h)
	}
	return cid.NewCidV1(f.codec, h)
}

func lit(b []byte) string {
	items := make([]string, len(b))
	for i, x := range b {
		items[i] = strconv.Itoa(int(x))
	}
	return "[" + strings.Join(items, ";") + "]"
}

func cidCoq(f form, digest []byte) string { return vh.App("Cid", strconv.Itoa(f.id), lit(digest)) }

// ---------- interning of block contents (CVal cases carry ids, not bytes) ----------

type intern struct {
	ids map[string]int
}

func (in *intern) id(b []byte) int {
	if v, ok := in.ids[string(b)]; ok {
		return v
	}
	v := len(in.ids) + 1
	in.ids[string(b)] = v
	return v
}

// ---------- outcome classification ----------

func outcome(err error, render func() string) string {
	var cre *filestore.CorruptReferenceError
	switch {
	case err == nil:
		return vh.App("OOk", render())
	case errors.Is(err, blockstore.ErrHashMismatch):
		return "OHashMismatch"
	case ipld.IsNotFound(err):
		return "ONotFound"
	case errors.As(err, &cre):
		switch cre.Code {
		case filestore.StatusFileError:
			return "(OCorrupt StFileError)"
		case filestore.StatusFileNotFound:
			return "(OCorrupt StFileNotFound)"
		case filestore.StatusFileChanged:
			return "(OCorrupt StFileChanged)"
		}
		return "OOther"
	case errors.Is(err, filestore.ErrFilestoreNotEnabled), errors.Is(err, filestore.ErrUrlstoreNotEnabled):
		return "ONotEnabled"
	}
	return "OOther"
}

// positions to corrupt: all of them up to `exhaust`, boundaries plus a stride above
func positions(e *vh.Env, n, exhaust int) []int {
	if n <= exhaust {
		out := make([]int, n)
		for i := range out {
			out[i] = i
		}
		return out
	}
	set := map[int]bool{0: true, 1: true, n - 1: true, n - 2: true, n / 2: true, 31: true, 32: true, 33: true, 63: true, 64: true, 65: true}
	stride := n / exhaust * 2
	if stride < 1 {
		stride = 1
	}
	for i := e.Rng.Intn(stride); i < n; i += stride {
		set[i] = true
	}
	var out []int
	for i := 0; i < n; i++ {
		if set[i] {
			out = append(out, i)
		}
	}
	return out
}

func TestC03(t *testing.T) {
	e := vh.Load(t)
	if strings.HasPrefix(filepath.Base(e.Out), "search") {
		e.Tier = "quick" // the driver's search for a concrete failing input after a break: quick-sized, other seed
	}
	st := vh.NewStats("(a) ValidatingBlockstore.Get over a datastore corrupted behind its back: per block (sizes 0..4096, 7 CID forms: v0, v1 raw/dag-pb sha2-256, " +
		"blake2b-256, sha2-512, sha2-256 truncated to 20 bytes, identity) every single-byte flip (exhaustive in position for blocks up to 40 bytes (quick) / 128 bytes (thorough), boundaries + stride above), every " +
		"truncation length, extension by 1..3 bytes, a foreign block, absence, intact; (b) FileManager.Get and Filestore.Get of file references (std and mmap reader) after " +
		"the file was overwritten at each offset, truncated to each length, extended, deleted, replaced by a directory; (c) URL references against an HTTP server answering " +
		"with modified/truncated bodies and error codes. Digests in the cases come from crypto/sha256, crypto/sha512, x/crypto/blake2b. " +
		"All three streams also request CIDs whose hash cannot be recomputed (sha2-256/blake2b-256 code with an over-long digest, an unknown multihash code, table codes without a hasher) over arbitrary stored bytes. non-trivial = the stored bytes / file / body differ from what the reference was created for; distinct by (form, content, corruption)")
	cs := vh.NewCases(e, "From V Require Import model.M_C03.\nOpen Scope N_scope.", "case", "check_case", 250)
	ctx := context.Background()
	in := &intern{ids: map[string]int{}}

	// ================= (a) validating blockstore =================
	sizes := []int{0, 1, 2, 31, 32, 33, 64, 100, 255, 256, 257, 512, 513, 1000, 2048, 4096}
	if !e.Thorough() {
		sizes = []int{0, 1, 2, 32, 33, 100, 513, 4096}
	}
	exhaust := e.Pick(40, 128)
	mds := dssync.MutexWrap(ds.NewMapDatastore())
	base := blockstore.NewBlockstore(mds)
	vbs := &blockstore.ValidatingBlockstore{Blockstore: base}
	rawKey := func(c cid.Cid) ds.Key { return blockstore.BlockPrefix.Child(dshelp.MultihashToDsKey(c.Hash())) }

	valCase := func(f form, c cid.Cid, want []byte, stored []byte, present bool, kind string, nontrivial bool) {
		k := rawKey(c)
		if present {
			if err := mds.Put(ctx, k, stored); err != nil {
				t.Fatal(err)
			}
		} else {
			mds.Delete(ctx, k)
		}
		blk, err := vbs.Get(ctx, c)
		tab := []string{}
		storedCoq := "None"
		if present {
			sid := in.id(stored)
			storedCoq = fmt.Sprintf("(Some %d)", sid)
			tab = append(tab, fmt.Sprintf("(%d, %d, %s)", f.id, sid, digOpt(f, stored)))
		}
		got := outcome(err, func() string {
			rid := in.id(blk.RawData())
			if !present || rid != in.id(stored) {
				tab = append(tab, fmt.Sprintf("(%d, %d, %s)", f.id, rid, digOpt(f, blk.RawData())))
			}
			return strconv.Itoa(rid)
		})
		rp := map[string]any{"part": "validating", "form": f.name, "size": len(want), "corruption": kind, "outcome": got}
		if err == nil && !blk.Cid().Equals(c) {
			st.Violate("ValidatingBlockstore.Get returned a block carrying a different CID than requested", "", rp)
		}
		cs.Add(vh.App("CVal", cidCoq(f, want), storedCoq, vh.List(tab), got), rp)
		st.Case(fmt.Sprintf("V|%s|%d|%s", f.name, len(want), kind), nontrivial)
		st.Count("validating " + strings.SplitN(kind, "@", 2)[0])
		st.Count("validating outcome " + strings.Fields(strings.Trim(got, "()"))[0])
		st.Sample(rp, 2)
	}

	for bi, n := range sizes {
		data := make([]byte, n)
		e.Rng.Read(data)
		var fs []form
		switch {
		case n <= 33 || (e.Thorough() && n <= 64):
			fs = forms
		case e.Thorough():
			fs = []form{forms[bi%len(forms)], forms[(bi+3)%len(forms)], forms[(bi+5)%len(forms)]}
		default:
			fs = []form{forms[bi%len(forms)], forms[(bi+3)%len(forms)]}
		}
		for _, f := range fs {
			if f.mhtype == mh.IDENTITY && n > 100 {
				continue // identity digests above the inlining limit are not CIDs anyone can build
			}
			c := mkCid(t, f, data)
			want := indep(f, data)
			valCase(f, c, want, data, true, "intact", false)
			valCase(f, c, want, nil, false, "absent", false)
			for _, p := range positions(e, n, exhaust) {
				mut := append([]byte{}, data...)
				mut[p] ^= byte(1 << uint(e.Rng.Intn(8)))
				valCase(f, c, want, mut, true, fmt.Sprintf("flip@%d", p), true)
			}
			if n > 0 {
				// all eight bits of one byte, and a byte replaced by every neighbour value class
				p := e.Rng.Intn(n)
				for bit := 0; bit < 8; bit++ {
					mut := append([]byte{}, data...)
					mut[p] ^= byte(1 << uint(bit))
					valCase(f, c, want, mut, true, fmt.Sprintf("flipbit%d@%d", bit, p), true)
				}
			}
			for _, l := range positions(e, n, exhaust) { // truncation to l < n bytes
				valCase(f, c, want, append([]byte{}, data[:l]...), true, fmt.Sprintf("truncate@%d", l), true)
			}
			for ext := 1; ext <= 3; ext++ {
				extra := make([]byte, ext)
				if ext == 2 {
					e.Rng.Read(extra)
				}
				valCase(f, c, want, append(append([]byte{}, data...), extra...), true, fmt.Sprintf("extend@%d", ext), true)
			}
			other := make([]byte, n)
			e.Rng.Read(other)
			if n > 0 {
				valCase(f, c, want, other, true, "foreign", true)
			}
			// digest bytes themselves stored instead of the data
			valCase(f, c, want, append([]byte{}, want...), true, "digest-as-data", string(want) != string(data))
			mds.Delete(ctx, rawKey(c))
		}
	}

	// CIDs whose hash cannot be recomputed: whatever is stored under their key, Get must answer with an error
	for _, f := range badForms {
		if _, err := mh.Sum([]byte("probe"), f.mhtype, f.mhlen); err == nil {
			t.Logf("form %s: go-multihash can compute this digest now; form skipped", f.name)
			continue
		}
		for _, n := range []int{0, 1, 32, 33, 100} {
			data := make([]byte, n)
			e.Rng.Read(data)
			c := mkCid(t, f, data)
			want := wantOf(f, data)
			valCase(f, c, want, data, true, "uncomputable-plausible", true)
			valCase(f, c, want, nil, false, "uncomputable-absent", false)
			valCase(f, c, want, append([]byte{}, want...), true, "uncomputable-digest-as-data", true)
			valCase(f, c, want, []byte{}, true, "uncomputable-empty", true)
			for k := 0; k < 3 && n > 0; k++ {
				mut := append([]byte{}, data...)
				mut[e.Rng.Intn(n)] ^= byte(1 << uint(e.Rng.Intn(8)))
				valCase(f, c, want, mut, true, fmt.Sprintf("uncomputable-flip@%d", k), true)
			}
			other := make([]byte, 1+e.Rng.Intn(64))
			e.Rng.Read(other)
			valCase(f, c, want, other, true, "uncomputable-foreign", true)
			mds.Delete(ctx, rawKey(c))
		}
	}

	// ================= (b) file references =================
	T := t.TempDir()
	fileSizes := []int{0, 1, 7, 16, 40}
	if !e.Thorough() {
		fileSizes = []int{0, 1, 7, 24}
	}
	type reg struct{ off, size int }
	regionsOf := func(n int) []reg {
		rs := []reg{{0, n}, {0, 0}}
		if n >= 1 {
			rs = append(rs, reg{0, 1}, reg{n - 1, 1}, reg{n, 0}, reg{n + 2, 0})
		}
		if n >= 7 {
			rs = append(rs, reg{2, 3}, reg{n / 2, n - n/2}, reg{1, n - 2})
		}
		return rs
	}
	runFile := func(rd string, f form, orig []byte, r reg, mutate func(path string) (state string, content []byte), kind string, nontrivial bool, allowAtGet bool) {
		dir, err := os.MkdirTemp(T, "fs")
		if err != nil {
			t.Fatal(err)
		}
		defer os.RemoveAll(dir)
		path := filepath.Join(dir, "file")
		if err := os.WriteFile(path, orig, 0o644); err != nil {
			t.Fatal(err)
		}
		var opts []filestore.Option
		if rd == "RMmap" {
			opts = append(opts, filestore.WithMMapReader())
		}
		fds := dssync.MutexWrap(ds.NewMapDatastore())
		fm := filestore.NewFileManager(fds, dir, opts...)
		fm.AllowFiles = true
		fstore := filestore.NewFilestore(blockstore.NewBlockstore(fds), fm, nil)
		end := r.off + r.size
		if end > len(orig) {
			end = len(orig)
		}
		start := r.off
		if start > len(orig) {
			start = len(orig)
		}
		data := append([]byte{}, orig[start:end]...) // what an adder would have read (regions past EOF: empty)
		if len(data) != r.size {
			return
		}
		c := mkCid(t, f, data)
		blk, err := blocks.NewBlockWithCid(data, c)
		if err != nil {
			t.Fatal(err)
		}
		node := &posinfo.FilestoreNode{Node: rawNode{blk}, PosInfo: &posinfo.PosInfo{FullPath: path, Offset: uint64(r.off)}}
		if err := fstore.Put(ctx, node); err != nil {
			t.Fatalf("Put of a valid reference failed: %v", err)
		}
		state, content := mutate(path)
		fm.AllowFiles = allowAtGet
		want := wantOf(f, data)
		tab := map[string]string{}
		addTab := func(b []byte) {
			tab[string(b)] = fmt.Sprintf("(%d, %s, %s)", f.id, lit(b), digOpt(f, b))
		}
		if state == "file" {
			s, en := r.off, r.off+r.size
			if s > len(content) {
				s = len(content)
			}
			if en > len(content) {
				en = len(content)
			}
			addTab(content[s:en])
		}
		addTab(nil)
		b1, err1 := fm.Get(ctx, c)
		got1 := outcome(err1, func() string { addTab(b1.RawData()); return lit(b1.RawData()) })
		b2, err2 := fstore.Get(ctx, c)
		got2 := outcome(err2, func() string { addTab(b2.RawData()); return lit(b2.RawData()) })
		var fstate string
		switch state {
		case "gone":
			fstate = "FGone"
		case "dir":
			fstate = "FDir"
		default:
			fstate = vh.App("FFile", lit(content))
		}
		var tabs []string
		for _, k := range sortedKeys(tab) {
			tabs = append(tabs, tab[k])
		}
		rp := map[string]any{"part": "file", "reader": rd, "form": f.name, "filesize": len(orig), "offset": r.off, "size": r.size, "mutation": kind, "get": got1, "filestore_get": got2}
		cs.Add(vh.App("CFile", vh.Bool(allowAtGet), rd, fstate, strconv.Itoa(r.off), strconv.Itoa(r.size), cidCoq(f, want), vh.List(tabs), got1, got2), rp)
		st.Case(fmt.Sprintf("F|%s|%s|%d|%d|%d|%s", rd, f.name, len(orig), r.off, r.size, kind), nontrivial)
		st.Count("file " + strings.SplitN(kind, "@", 2)[0])
		st.Count("file outcome " + strings.Fields(strings.Trim(got1, "()"))[0])
		st.Sample(rp, 4)
	}

	keep := func(p int) bool { return e.Thorough() || e.Rng.Intn(p) == 0 }
	for _, rd := range []string{"RStd", "RMmap"} {
		for fi, n := range fileSizes {
			orig := make([]byte, n)
			e.Rng.Read(orig)
			for ri, r := range regionsOf(n) {
				// every CIDv1 form in turn (sha2-256 raw/dag-pb, blake2b-256, sha2-512, truncated sha2-256, identity);
				// the whole-file and every third region additionally with an identity-multihash CID (inlining builders)
				fsel := []form{forms[1+(fi+ri)%6]}
				if r.size > 0 && fsel[0].mhtype != mh.IDENTITY && ri%3 == 0 {
					fsel = append(fsel, forms[6])
				}
				for _, f := range fsel {
					same := func(path string) (string, []byte) { return "file", orig }
					runFile(rd, f, orig, r, same, "untouched", false, true)
					runFile(rd, f, orig, r, same, "untouched-notallowed", false, false)
					runFile(rd, f, orig, r, func(path string) (string, []byte) { os.Remove(path); return "gone", nil }, "deleted", true, true)
					runFile(rd, f, orig, r, func(path string) (string, []byte) {
						os.Remove(path)
						os.Mkdir(path, 0o755)
						return "dir", nil
					}, "directory", true, true)
					for p := 0; p < n; p++ { // overwrite one byte at every offset
						if !keep(4) && p != r.off && p != r.off+r.size-1 && p != r.off-1 && p != r.off+r.size {
							continue
						}
						p := p
						runFile(rd, f, orig, r, func(path string) (string, []byte) {
							mut := append([]byte{}, orig...)
							mut[p] ^= byte(1 << uint(e.Rng.Intn(8)))
							os.WriteFile(path, mut, 0o644)
							return "file", mut
						}, fmt.Sprintf("overwrite@%d", p), true, true)
					}
					for l := 0; l <= n+2; l++ { // truncate / extend to every length
						if l == n {
							continue
						}
						if !keep(4) && l != r.off && l != r.off+r.size && l != r.off+r.size-1 && l != r.off-1 && l != r.off+1 && l != 0 {
							continue
						}
						l := l
						kind := fmt.Sprintf("truncate@%d", l)
						if l > n {
							kind = fmt.Sprintf("extend@%d", l-n)
						}
						runFile(rd, f, orig, r, func(path string) (string, []byte) {
							var mut []byte
							if l <= n {
								mut = append([]byte{}, orig[:l]...)
							} else {
								mut = append(append([]byte{}, orig...), make([]byte, l-n)...)
							}
							os.WriteFile(path, mut, 0o644)
							return "file", mut
						}, kind, true, true)
					}
					// same length, different content; and the region's bytes moved by one
					runFile(rd, f, orig, r, func(path string) (string, []byte) {
						mut := make([]byte, n)
						e.Rng.Read(mut)
						os.WriteFile(path, mut, 0o644)
						return "file", mut
					}, "rewritten", n > 0, true)
					runFile(rd, f, orig, r, func(path string) (string, []byte) {
						mut := append([]byte{0x2a}, orig...)
						os.WriteFile(path, mut, 0o644)
						return "file", mut
					}, "shifted", true, true)
				}
			}
		}
	}

	// references whose multihash cannot be recomputed
	for _, rd := range []string{"RStd", "RMmap"} {
		for _, f := range badForms {
			if _, err := mh.Sum([]byte("probe"), f.mhtype, f.mhlen); err == nil {
				continue
			}
			orig := make([]byte, 16)
			e.Rng.Read(orig)
			for _, r := range []reg{{0, 16}, {2, 3}, {16, 0}} {
				runFile(rd, f, orig, r, func(path string) (string, []byte) { return "file", orig }, "uncomputable-untouched", true, true)
				runFile(rd, f, orig, r, func(path string) (string, []byte) {
					mut := append([]byte{}, orig...)
					mut[2] ^= 0x10
					os.WriteFile(path, mut, 0o644)
					return "file", mut
				}, "uncomputable-overwrite@2", true, true)
				runFile(rd, f, orig, r, func(path string) (string, []byte) {
					os.WriteFile(path, orig[:1], 0o644)
					return "file", orig[:1]
				}, "uncomputable-truncate@1", true, true)
				runFile(rd, f, orig, r, func(path string) (string, []byte) { os.Remove(path); return "gone", nil }, "uncomputable-deleted", true, true)
			}
		}
	}

	// ================= (c) URL references =================
	var respCode int
	var respBody []byte
	var lastRange string
	srv := httptest.NewServer(http.HandlerFunc(func(w http.ResponseWriter, r *http.Request) {
		lastRange = r.Header.Get("Range")
		w.WriteHeader(respCode)
		w.Write(respBody)
	}))
	defer srv.Close()
	runURL := func(f form, data []byte, off int, code int, body []byte, allow bool, kind string, nontrivial bool) {
		fds := dssync.MutexWrap(ds.NewMapDatastore())
		fm := filestore.NewFileManager(fds, T)
		fm.AllowUrls = true
		fstore := filestore.NewFilestore(blockstore.NewBlockstore(fds), fm, nil)
		c := mkCid(t, f, data)
		blk, err := blocks.NewBlockWithCid(data, c)
		if err != nil {
			t.Fatal(err)
		}
		node := &posinfo.FilestoreNode{Node: rawNode{blk}, PosInfo: &posinfo.PosInfo{FullPath: srv.URL + "/obj", Offset: uint64(off)}}
		if err := fstore.Put(ctx, node); err != nil {
			t.Fatalf("Put of a URL reference failed: %v", err)
		}
		fm.AllowUrls = allow
		respCode, respBody, lastRange = code, body, ""
		tab := map[string]string{}
		addTab := func(b []byte) { tab[string(b)] = fmt.Sprintf("(%d, %s, %s)", f.id, lit(b), digOpt(f, b)) }
		if len(body) >= len(data) {
			addTab(body[:len(data)])
		}
		addTab(nil)
		b1, err1 := fm.Get(ctx, c)
		got1 := outcome(err1, func() string { addTab(b1.RawData()); return lit(b1.RawData()) })
		rng := "None"
		if strings.HasPrefix(lastRange, "bytes=") {
			parts := strings.SplitN(strings.TrimPrefix(lastRange, "bytes="), "-", 2)
			if len(parts) == 2 {
				rng = fmt.Sprintf("(Some (%s, %s))", parts[0], parts[1])
			}
		}
		b2, err2 := fstore.Get(ctx, c)
		got2 := outcome(err2, func() string { addTab(b2.RawData()); return lit(b2.RawData()) })
		var tabs []string
		for _, k := range sortedKeys(tab) {
			tabs = append(tabs, tab[k])
		}
		rp := map[string]any{"part": "url", "form": f.name, "offset": off, "size": len(data), "code": code, "bodylen": len(body), "mutation": kind, "get": got1}
		cs.Add(vh.App("CUrl", vh.Bool(allow), strconv.Itoa(code), lit(body), strconv.Itoa(off), strconv.Itoa(len(data)), cidCoq(f, wantOf(f, data)),
			vh.List(tabs), rng, got1, got2), rp)
		st.Case(fmt.Sprintf("U|%s|%d|%d|%d|%s", f.name, off, len(data), code, kind), nontrivial)
		st.Count("url " + strings.SplitN(kind, "@", 2)[0])
		st.Count("url outcome " + strings.Fields(strings.Trim(got1, "()"))[0])
		st.Sample(rp, 6)
	}
	for ui, n := range []int{0, 1, 9, 33} {
		data := make([]byte, n)
		e.Rng.Read(data)
		for _, f := range []form{forms[1+ui%5], forms[6]} { // a real hash function in turn, and the identity multihash
			for _, off := range []int{0, 5} {
				runURL(f, data, off, 206, data, true, "intact-206", false)
				runURL(f, data, off, 200, data, true, "intact-200", false)
				runURL(f, data, off, 206, data, false, "notallowed", false)
				runURL(f, data, off, 206, append(append([]byte{}, data...), 1, 2, 3), true, "longer-body", true)
				for _, code := range []int{204, 301, 403, 404, 416, 500, 503} {
					runURL(f, data, off, code, data, true, fmt.Sprintf("status@%d", code), true)
				}
				for p := 0; p < n; p++ {
					mut := append([]byte{}, data...)
					mut[p] ^= byte(1 << uint(e.Rng.Intn(8)))
					runURL(f, data, off, 206, mut, true, fmt.Sprintf("flip@%d", p), true)
				}
				for l := 0; l < n; l++ {
					runURL(f, data, off, 206, append([]byte{}, data[:l]...), true, fmt.Sprintf("truncate@%d", l), true)
				}
			}
		}
	}
	for _, f := range badForms {
		if _, err := mh.Sum([]byte("probe"), f.mhtype, f.mhlen); err == nil {
			continue
		}
		data := make([]byte, 9)
		e.Rng.Read(data)
		runURL(f, data, 3, 206, data, true, "uncomputable-intact", true)
		runURL(f, data, 3, 206, append([]byte{data[0] ^ 1}, data[1:]...), true, "uncomputable-flip", true)
		runURL(f, data, 3, 206, data[:4], true, "uncomputable-truncate", true)
		runURL(f, data, 3, 404, data, true, "uncomputable-status@404", true)
	}
	heldStreams(t, e, st, cs, in)
	cs.Close()
	st.Write(e)
}

// ---------- held blocks: what a caller was given must stay what was verified ----------

type heldBlock struct {
	f    form
	c    cid.Cid
	want []byte
	snap []byte       // copy of the bytes at the moment Get returned
	blk  blocks.Block // the block the caller keeps
	how  string
	step int
}

type hRef struct {
	f       form
	c       cid.Cid
	data    []byte
	file    int // index of the backing file, -1 for a URL reference
	off     int
	url     string
	damaged bool
}

// heldStreams keeps blocks returned by Get while further reads of references in the same size
// class (successful ones, failing ones on modified / truncated files and bodies, Verify, VerifyAll)
// go on, and checks at the end that every kept block still has the bytes it was returned with and
// that they still hash to its CID (independent digest).
func heldStreams(t *testing.T, e *vh.Env, st *vh.Stats, cs *vh.Cases, in *intern) {
	ctx := context.Background()
	finish := func(part string, class string, held []heldBlock, log []string) {
		for _, h := range held {
			live := h.blk.RawData()
			rid, eid := in.id(h.snap), in.id(live)
			tab := []string{fmt.Sprintf("(%d, %d, %s)", h.f.id, rid, digOpt(h.f, h.snap))}
			if eid != rid {
				tab = append(tab, fmt.Sprintf("(%d, %d, %s)", h.f.id, eid, digOpt(h.f, live)))
			}
			hist := log
			if len(hist) > 60 {
				hist = append(append([]string{}, hist[:30]...), append([]string{"..."}, hist[len(hist)-29:]...)...)
			}
			rp := map[string]any{"part": part, "class": class, "form": h.f.name, "cid": h.c.String(), "size": len(h.snap),
				"returned_by": h.how, "returned_at_step": h.step, "steps": len(log), "history": strings.Join(hist, " ")}
			ok := string(live) == string(h.snap) && !h.f.bad && string(indep(h.f, live)) == string(h.want)
			if !ok {
				st.Violate("a block returned by Get no longer holds the bytes it was returned with / no longer hashes to its CID after later reads", "", rp)
			}
			cs.Add(vh.App("CHeld", cidCoq(h.f, h.want), vh.List(tab), strconv.Itoa(rid), strconv.Itoa(eid)), rp)
			st.Case(fmt.Sprintf("H|%s|%s|%s|%d|%d", part, class, h.c.String(), h.step, len(log)), true)
			st.Count("held " + part)
			st.Sample(rp, 8)
		}
	}

	classes := []struct {
		name   string
		lo, hi int
	}{{"7-16", 7, 16}, {"100-120", 100, 120}, {"1000-1024", 1000, 1024}, {"4096", 4096, 4096}}
	goodFormsAll := []form{forms[1], forms[2], forms[3], forms[4], forms[5], forms[6]}
	goodForms := goodFormsAll[:5]

	// ---- validating blockstore ----
	for _, cl := range classes {
		mds := dssync.MutexWrap(ds.NewMapDatastore())
		vbs := &blockstore.ValidatingBlockstore{Blockstore: blockstore.NewBlockstore(mds)}
		type vb struct {
			f    form
			c    cid.Cid
			data []byte
		}
		var pool []vb
		for i := 0; i < 8; i++ {
			data := make([]byte, cl.lo+e.Rng.Intn(cl.hi-cl.lo+1))
			e.Rng.Read(data)
			f := goodForms[i%len(goodForms)]
			c := mkCid(t, f, data)
			if err := mds.Put(ctx, blockstore.BlockPrefix.Child(dshelp.MultihashToDsKey(c.Hash())), data); err != nil {
				t.Fatal(err)
			}
			pool = append(pool, vb{f, c, data})
		}
		var held []heldBlock
		var log []string
		for step := 0; step < e.Pick(40, 150); step++ {
			b := pool[e.Rng.Intn(len(pool))]
			if e.Rng.Intn(4) == 0 { // corrupt or repair the stored bytes
				mut := append([]byte{}, b.data...)
				if e.Rng.Intn(2) == 0 && len(mut) > 0 {
					mut[e.Rng.Intn(len(mut))] ^= 0x40
				}
				mds.Put(ctx, blockstore.BlockPrefix.Child(dshelp.MultihashToDsKey(b.c.Hash())), mut)
				log = append(log, "store")
			}
			blk, err := vbs.Get(ctx, b.c)
			if err == nil {
				held = append(held, heldBlock{b.f, b.c, indep(b.f, b.data), append([]byte{}, blk.RawData()...), blk, "ValidatingBlockstore.Get", step})
				log = append(log, "get+")
			} else {
				log = append(log, "get-")
			}
		}
		finish("validating", cl.name, held, log)
	}

	// ---- file and URL references ----
	bodies := map[string][]byte{}
	srv := httptest.NewServer(http.HandlerFunc(func(w http.ResponseWriter, r *http.Request) {
		b, ok := bodies[r.URL.Path]
		if !ok {
			w.WriteHeader(404)
			return
		}
		w.WriteHeader(206)
		w.Write(b)
	}))
	defer srv.Close()
	for _, rd := range []string{"RStd", "RMmap"} {
		for _, cl := range classes {
			dir := t.TempDir()
			gf := goodForms
			if cl.hi <= 120 {
				gf = goodFormsAll // incl. the identity multihash, for inlinable sizes
			}
			var opts []filestore.Option
			if rd == "RMmap" {
				opts = append(opts, filestore.WithMMapReader())
			}
			fds := dssync.MutexWrap(ds.NewMapDatastore())
			fm := filestore.NewFileManager(fds, dir, opts...)
			fm.AllowFiles, fm.AllowUrls = true, true
			fstore := filestore.NewFilestore(blockstore.NewBlockstore(fds), fm, nil)
			nfiles := 3
			contents := make([][]byte, nfiles)
			paths := make([]string, nfiles)
			var refs []*hRef
			put := func(r *hRef, full string) {
				blk, err := blocks.NewBlockWithCid(r.data, r.c)
				if err != nil {
					t.Fatal(err)
				}
				node := &posinfo.FilestoreNode{Node: rawNode{blk}, PosInfo: &posinfo.PosInfo{FullPath: full, Offset: uint64(r.off)}}
				if err := fstore.Put(ctx, node); err != nil {
					t.Fatalf("Put: %v", err)
				}
				refs = append(refs, r)
			}
			for fi := 0; fi < nfiles; fi++ {
				paths[fi] = filepath.Join(dir, fmt.Sprintf("f%d", fi))
				var content []byte
				type pend struct{ off, size int }
				var ps []pend
				for k := 0; k < 4; k++ {
					content = append(content, byte(k), 0xEE, 0xEE) // a gap
					size := cl.lo + e.Rng.Intn(cl.hi-cl.lo+1)
					region := make([]byte, size)
					e.Rng.Read(region)
					ps = append(ps, pend{len(content), size})
					content = append(content, region...)
				}
				contents[fi] = content
				if err := os.WriteFile(paths[fi], content, 0o644); err != nil {
					t.Fatal(err)
				}
				for k, p := range ps {
					f := gf[(fi+k)%len(gf)]
					data := append([]byte{}, content[p.off:p.off+p.size]...)
					put(&hRef{f: f, c: mkCid(t, f, data), data: data, file: fi, off: p.off}, paths[fi])
				}
			}
			for u := 0; u < 3; u++ {
				size := cl.lo + e.Rng.Intn(cl.hi-cl.lo+1)
				data := make([]byte, size)
				e.Rng.Read(data)
				pth := fmt.Sprintf("/%s/%s/u%d", rd, cl.name, u)
				bodies[pth] = append([]byte{}, data...)
				f := gf[(u+3)%len(gf)]
				put(&hRef{f: f, c: mkCid(t, f, data), data: data, file: -1, off: 5, url: pth}, srv.URL+pth)
			}

			var held []heldBlock
			var log []string
			get := func(r *hRef, step int) {
				var blk blocks.Block
				var err error
				how := "FileManager.Get"
				if e.Rng.Intn(2) == 0 {
					how = "Filestore.Get"
					blk, err = fstore.Get(ctx, r.c)
				} else {
					blk, err = fm.Get(ctx, r.c)
				}
				if err == nil {
					held = append(held, heldBlock{r.f, r.c, indep(r.f, r.data), append([]byte{}, blk.RawData()...), blk, how + " rd=" + rd, step})
					log = append(log, "get+")
				} else {
					log = append(log, "get-")
				}
			}
			steps := e.Pick(60, 250)
			for step := 0; step < steps; step++ {
				r := refs[e.Rng.Intn(len(refs))]
				switch x := e.Rng.Intn(20); {
				case x < 11:
					get(r, step)
				case x < 14: // damage the backing bytes of a reference, then read it (must fail) and others
					if r.file >= 0 {
						c := contents[r.file]
						if i := r.off + e.Rng.Intn(len(r.data)); i < len(c) { // the file may have been truncated inside this region
							c[i] ^= 0x01
							os.WriteFile(paths[r.file], c, 0o644)
						}
					} else if b := bodies[r.url]; len(b) > 0 { // the body may have been truncated
						b[e.Rng.Intn(len(b))] ^= 0x01
					}
					r.damaged = true
					log = append(log, "damage")
					get(r, step)
				case x < 15: // truncate a file inside its last region (or a body), read
					if r.file >= 0 {
						if c := contents[r.file]; len(c) > 4 {
							c = c[:len(c)-1-e.Rng.Intn(3)]
							contents[r.file] = c
							os.WriteFile(paths[r.file], c, 0o644)
						}
					} else if b := bodies[r.url]; len(b) > 0 {
						bodies[r.url] = b[:len(b)-1]
					}
					log = append(log, "truncate")
					get(r, step)
				case x < 18:
					filestore.Verify(ctx, fstore, r.c)
					log = append(log, "verify")
				default:
					next, err := filestore.VerifyAll(ctx, fstore, e.Rng.Intn(2) == 0)
					if err == nil {
						for n := 0; n < 1000 && next(ctx) != nil; n++ {
						}
					}
					log = append(log, "verifyall")
				}
			}
			// a last sweep of reads over every reference, nothing kept
			for _, r := range refs {
				fm.Get(ctx, r.c)
			}
			log = append(log, "sweep")
			finish("filestore-"+rd, cl.name, held, log)
		}
	}
}

func sortedKeys(m map[string]string) []string {
	out := make([]string, 0, len(m))
	for k := range m {
		out = append(out, k)
	}
	for i := 1; i < len(out); i++ {
		for j := i; j > 0 && out[j] < out[j-1]; j-- {
			out[j], out[j-1] = out[j-1], out[j]
		}
	}
	return out
}

// rawNode makes a blocks.Block usable as the ipld.Node of a FilestoreNode (only
// Cid and RawData are used by the filestore).
type rawNode struct{ blocks.Block }

func (rawNode) Resolve([]string) (interface{}, []string, error) { return nil, nil, errors.New("leaf") }
func (rawNode) Tree(string, int) []string                       { return nil }
func (rawNode) ResolveLink([]string) (*ipld.Link, []string, error) {
	return nil, nil, errors.New("leaf")
}
func (n rawNode) Copy() ipld.Node             { return n }
func (rawNode) Links() []*ipld.Link           { return nil }
func (rawNode) Stat() (*ipld.NodeStat, error) { return &ipld.NodeStat{}, nil }
func (n rawNode) Size() (uint64, error)       { return uint64(len(n.RawData())), nil }
