// Correspondence harness for C25 (IPNS validation): honest records for
// Ed25519/secp256k1/ECDSA/RSA keys (made by ipns.NewRecord and by the harness' own
// dag-cbor/protobuf writers + the private key) are mutated — every single-field
// protobuf change, byte flips, signature/key/name swaps, duplicate/unknown fields,
// re-signed DAG-CBOR documents with missing/ill-typed/extra keys, size boundary,
// truncation — and handed to UnmarshalRecord, the accessors, ValidateWithName and
// Validator.Validate.  What libp2p/SHA-256/time.Parse say about the byte strings
// involved is computed here directly (not through boxo) and passed to Coq as
// oracle tables; Coq runs the model (lib/Ipns.v, model/M_C25.v) on the same bytes
// and checks the specification: accepted => signature verifies under the key bound
// to the name on exactly the record's Data, not expired, within the size limit,
// present legacy fields agree with the signed document, accessors = signed values.
package c25

import (
	"bytes"
	"crypto/rand"
	"encoding/binary"
	"encoding/hex"
	"errors"
	"fmt"
	"math/big"
	"sort"
	"strings"
	"testing"
	"time"

	"github.com/ipfs/boxo/ipns"
	ipns_pb "github.com/ipfs/boxo/ipns/pb"
	"github.com/ipfs/boxo/path"
	"github.com/ipld/go-ipld-prime/codec/dagcbor"
	basicnode "github.com/ipld/go-ipld-prime/node/basic"
	ic "github.com/libp2p/go-libp2p/core/crypto"
	"github.com/libp2p/go-libp2p/core/peer"
	mh "github.com/multiformats/go-multihash"
	"google.golang.org/protobuf/proto"

	"verif/harness/vh"
)

// ---------- keys ----------

type keyPair struct {
	kind   string
	sk     ic.PrivKey
	pk     ic.PubKey
	pkb    []byte
	pid    peer.ID
	name   ipns.Name
	inline bool
	digest []byte
}

func mkKey(t *testing.T, kind string) keyPair {
	var sk ic.PrivKey
	var pk ic.PubKey
	var err error
	switch kind {
	case "ed25519":
		sk, pk, err = ic.GenerateEd25519Key(rand.Reader)
	case "secp256k1":
		sk, pk, err = ic.GenerateSecp256k1Key(rand.Reader)
	case "ecdsa":
		sk, pk, err = ic.GenerateECDSAKeyPair(rand.Reader)
	case "rsa":
		sk, pk, err = ic.GenerateRSAKeyPair(2048, rand.Reader)
	}
	if err != nil {
		t.Fatal(err)
	}
	pkb, _ := ic.MarshalPublicKey(pk)
	pid, err := peer.IDFromPublicKey(pk)
	if err != nil {
		t.Fatal(err)
	}
	dec, err := mh.Decode([]byte(pid))
	if err != nil {
		t.Fatal(err)
	}
	return keyPair{kind: kind, sk: sk, pk: pk, pkb: pkb, pid: pid, name: ipns.NameFromPeer(pid),
		inline: dec.Code == mh.IDENTITY, digest: dec.Digest}
}
func (k keyPair) nameCoq() string {
	if k.inline {
		return vh.App("NInline", vh.Bytes(k.digest))
	}
	return vh.App("NHash", vh.Bytes(k.digest))
}

// ---------- protobuf / dag-cbor writers ----------

type field struct {
	num  int
	wt   int    // 0 varint, 1 fixed64, 2 bytes, 5 fixed32
	v    uint64 // varint / fixed value
	b    []byte
	pad  int // extra continuation bytes for a non-minimal varint value
}

func uvarint(x uint64) []byte {
	var b [10]byte
	return append([]byte(nil), b[:binary.PutUvarint(b[:], x)]...)
}
func uvarintPadded(x uint64, pad int) []byte {
	out := uvarint(x)
	for i := 0; i < pad && len(out) < 10; i++ {
		out[len(out)-1] |= 0x80
		out = append(out, 0)
	}
	return out
}
func (f field) enc() []byte {
	out := uvarint(uint64(f.num)<<3 | uint64(f.wt))
	switch f.wt {
	case 0:
		out = append(out, uvarintPadded(f.v, f.pad)...)
	case 1:
		var b [8]byte
		binary.LittleEndian.PutUint64(b[:], f.v)
		out = append(out, b[:]...)
	case 2:
		out = append(out, uvarint(uint64(len(f.b)))...)
		out = append(out, f.b...)
	case 5:
		var b [4]byte
		binary.LittleEndian.PutUint32(b[:], uint32(f.v))
		out = append(out, b[:]...)
	}
	return out
}
func encFields(fs []field) []byte {
	var out []byte
	for _, f := range fs {
		out = append(out, f.enc()...)
	}
	return out
}
func cloneFields(fs []field) []field {
	out := make([]field, len(fs))
	for i, f := range fs {
		f.b = append([]byte(nil), f.b...)
		out[i] = f
	}
	return out
}
func bf(num int, b []byte) field  { return field{num: num, wt: 2, b: b} }
func vf(num int, v uint64) field  { return field{num: num, wt: 0, v: v} }
func find(fs []field, num int) int {
	for i, f := range fs {
		if f.num == num {
			return i
		}
	}
	return -1
}
func without(fs []field, num int) []field {
	var out []field
	for _, f := range fs {
		if f.num != num {
			out = append(out, f)
		}
	}
	return out
}
func withField(fs []field, nf field) []field {
	out := cloneFields(fs)
	if i := find(out, nf.num); i >= 0 {
		out[i] = nf
		return out
	}
	out = append(out, nf)
	sort.SliceStable(out, func(i, j int) bool { return out[i].num < out[j].num })
	return out
}

func cborHead(major byte, n uint64) []byte {
	switch {
	case n < 24:
		return []byte{major<<5 | byte(n)}
	case n < 1<<8:
		return []byte{major<<5 | 24, byte(n)}
	case n < 1<<16:
		return []byte{major<<5 | 25, byte(n >> 8), byte(n)}
	case n < 1<<32:
		b := []byte{major<<5 | 26, 0, 0, 0, 0}
		binary.BigEndian.PutUint32(b[1:], uint32(n))
		return b
	}
	b := []byte{major<<5 | 27, 0, 0, 0, 0, 0, 0, 0, 0}
	binary.BigEndian.PutUint64(b[1:], n)
	return b
}
func cborInt(v int64) []byte {
	if v >= 0 {
		return cborHead(0, uint64(v))
	}
	return cborHead(1, uint64(-(v + 1)))
}
func cborText(s string) []byte  { return append(cborHead(3, uint64(len(s))), s...) }
func cborBytes(b []byte) []byte { return append(cborHead(2, uint64(len(b))), b...) }

type kv struct {
	k string
	v []byte
}

func cborMap(kvs []kv) []byte {
	out := cborHead(5, uint64(len(kvs)))
	for _, e := range kvs {
		out = append(out, cborText(e.k)...)
		out = append(out, e.v...)
	}
	return out
}
func canon(kvs []kv) []kv {
	out := append([]kv(nil), kvs...)
	sort.SliceStable(out, func(i, j int) bool {
		if len(out[i].k) != len(out[j].k) {
			return len(out[i].k) < len(out[j].k)
		}
		return out[i].k < out[j].k
	})
	return out
}

// ---------- documents ----------

const (
	secFuture = 4102444800 // 2100-01-01
	secPast   = 978307200  // 2001-01-01
)

type doc struct {
	value    string
	validity string
	vtype    int64
	seq      uint64
	ttl      int64
}

func stdDoc(seq uint64, future bool) doc {
	sec := int64(secFuture)
	if !future {
		sec = secPast
	}
	return doc{value: "/ipfs/bafkqaaa", validity: time.Unix(sec, 500).UTC().Format(time.RFC3339Nano), seq: seq, ttl: 300000000000}
}
func (d doc) kvs() []kv {
	return []kv{{"Value", cborBytes([]byte(d.value))}, {"Validity", cborBytes([]byte(d.validity))},
		{"ValidityType", cborInt(d.vtype)}, {"Sequence", cborInt(int64(d.seq))}, {"TTL", cborInt(d.ttl)}}
}
func setKV(kvs []kv, k string, v []byte) []kv {
	out := append([]kv(nil), kvs...)
	for i := range out {
		if out[i].k == k {
			out[i].v = v
			return out
		}
	}
	return append(out, kv{k, v})
}
func delKV(kvs []kv, k string) []kv {
	var out []kv
	for _, e := range kvs {
		if e.k != k {
			out = append(out, e)
		}
	}
	return out
}

// signedFields builds an envelope around data, signed by k: v2 signature always,
// legacy fields (consistent with d) if v1, embedded key if embed.
func signedFields(t *testing.T, k keyPair, data []byte, d doc, v1, embed bool) []field {
	sig2, err := k.sk.Sign(append([]byte("ipns-signature:"), data...))
	if err != nil {
		t.Fatal(err)
	}
	var fs []field
	if v1 {
		sig1, _ := k.sk.Sign([]byte(d.value + d.validity + "EOL"))
		fs = append(fs, bf(1, []byte(d.value)), bf(2, sig1), vf(3, uint64(d.vtype)), bf(4, []byte(d.validity)), vf(5, d.seq), vf(6, uint64(d.ttl)))
	}
	if embed {
		fs = append(fs, bf(7, k.pkb))
	}
	fs = append(fs, bf(8, sig2), bf(9, data))
	return fs
}

// parseFields splits a record made by boxo into its fields (known to be canonical).
func parseFields(t *testing.T, raw []byte) []field {
	var pb ipns_pb.IpnsRecord
	if err := proto.Unmarshal(raw, &pb); err != nil {
		t.Fatal(err)
	}
	var fs []field
	if pb.Value != nil {
		fs = append(fs, bf(1, pb.Value))
	}
	if pb.SignatureV1 != nil {
		fs = append(fs, bf(2, pb.SignatureV1))
	}
	if pb.ValidityType != nil {
		fs = append(fs, vf(3, uint64(*pb.ValidityType)))
	}
	if pb.Validity != nil {
		fs = append(fs, bf(4, pb.Validity))
	}
	if pb.Sequence != nil {
		fs = append(fs, vf(5, *pb.Sequence))
	}
	if pb.Ttl != nil {
		fs = append(fs, vf(6, *pb.Ttl))
	}
	if pb.PubKey != nil {
		fs = append(fs, bf(7, pb.PubKey))
	}
	if pb.SignatureV2 != nil {
		fs = append(fs, bf(8, pb.SignatureV2))
	}
	if pb.Data != nil {
		fs = append(fs, bf(9, pb.Data))
	}
	if !bytes.Equal(encFields(fs), raw) {
		t.Fatalf("harness protobuf writer disagrees with protobuf-go on a record made by boxo")
	}
	return fs
}

// ---------- classification ----------

func classify(err error) string {
	switch {
	case err == nil:
		return "(Ok tt)"
	case errors.Is(err, ipns.ErrRecordSize):
		return "(Err ERecordSize)"
	case errors.Is(err, ipns.ErrSignature):
		return "(Err ESignature)"
	case errors.Is(err, ipns.ErrPublicKeyMismatch):
		return "(Err EPkMismatch)"
	case errors.Is(err, ipns.ErrInvalidPublicKey):
		return "(Err EInvalidPk)"
	case errors.Is(err, ipns.ErrPublicKeyNotFound):
		return "(Err EPkNotFound)"
	case errors.Is(err, peer.ErrNoPublicKey):
		return "(Err ENoPk)"
	case errors.Is(err, ipns.ErrExpiredRecord):
		return "(Err EExpired)"
	case errors.Is(err, ipns.ErrUnrecognizedValidity):
		return "(Err EUnrecValidity)"
	case errors.Is(err, ipns.ErrInvalidValidity):
		return "(Err EInvalidValidity)"
	case errors.Is(err, ipns.ErrInvalidName):
		return "(Err EInvalidName)"
	case errors.Is(err, ipns.ErrInvalidRecord):
		return "(Err EInvalidRecord)"
	}
	return "(Err EOther)"
}

func instantOpt(t time.Time, err error) string {
	if err != nil {
		return "None"
	}
	b := new(big.Int).Mul(big.NewInt(t.Unix()), big.NewInt(1_000_000_000))
	b.Add(b, big.NewInt(int64(t.Nanosecond())))
	return "(Some " + vh.ZBig(b) + ")"
}

type harness struct {
	t  *testing.T
	cs *vh.Cases
	st *vh.Stats
}

// oracleFor computes, without boxo, what libp2p / SHA-256 / time.Parse say about the
// byte strings occurring in raw (and the extra key bytes): the Coq oracle tables.
func (h *harness) oracleFor(nameKey keyPair, raw []byte, extraKeys [][]byte, render func([]byte) string) (oracle string, future bool, rawValue []byte, haveValue bool) {
	t := h.t
	// ---- oracle tables, computed without boxo ----
	var pb ipns_pb.IpnsRecord
	pbOK := proto.Unmarshal(raw, &pb) == nil
	var data, sig2, embedded []byte
	if pbOK {
		data, sig2, embedded = pb.GetData(), pb.GetSignatureV2(), pb.GetPubKey()
	}
	var qKeys, qSha, qVerify, qTimes []string
	seen := map[string]bool{}
	addKey := func(b []byte) {
		if len(b) == 0 || seen[string(b)] {
			return
		}
		seen[string(b)] = true
		pk, err := ic.UnmarshalPublicKey(b)
		if err != nil {
			return
		}
		cn, err := ic.MarshalPublicKey(pk)
		if err != nil {
			return
		}
		qKeys = append(qKeys, vh.Pair(render(b), render(cn)))
		if pid, err := peer.IDFromPublicKey(pk); err == nil {
			if dec, err := mh.Decode([]byte(pid)); err == nil && dec.Code != mh.IDENTITY {
				qSha = append(qSha, vh.Pair(render(cn), render(dec.Digest)))
			}
		}
		ok, verr := pk.Verify(append([]byte("ipns-signature:"), data...), sig2)
		qVerify = append(qVerify, vh.Pair(render(cn), vh.Bool(ok && verr == nil)))
	}
	addKey(embedded)
	if nameKey.inline {
		addKey(nameKey.digest)
	}
	for _, kb := range extraKeys {
		addKey(kb)
	}
	// the Validity string inside the signed document, and what time.Parse makes of it
	future = true
	if pbOK && len(data) > 0 {
		nb := basicnode.Prototype__Map{}.NewBuilder()
		if err := dagcbor.Decode(nb, bytes.NewReader(data)); err == nil {
			nd := nb.Build()
			if v, err := nd.LookupByString("Validity"); err == nil {
				if vb, err := v.AsBytes(); err == nil {
					tm, perr := time.Parse(time.RFC3339Nano, string(vb))
					qTimes = append(qTimes, vh.Pair(render(vb), instantOpt(tm, perr)))
					if perr == nil {
						diff := time.Until(tm)
						if diff < 48*time.Hour && diff > -48*time.Hour {
							t.Fatalf("harness generated an expiry too close to now: %s", vb)
						}
						future = diff > 0
					}
				}
			}
			if v, err := nd.LookupByString("Value"); err == nil {
				if vb, err := v.AsBytes(); err == nil {
					rawValue, haveValue = vb, true
				}
			}
		}
	}
	oracle = vh.App("mkOracle", vh.List(qKeys), vh.List(qSha), vh.List(qVerify), render(data), render(sig2), vh.List(qTimes))
	return
}

// emit runs one (name, raw) pair through boxo and writes the case. It returns
// whether any validation entry point accepted.
func (h *harness) emit(label string, nameKey keyPair, raw []byte) bool {
	oracle, future, rawValue, haveValue := h.oracleFor(nameKey, raw, nil, vh.Bytes)

	// ---- boxo ----
	rec, uerr := ipns.UnmarshalRecord(raw)
	acc, vwn := "None", "None"
	accepted := false
	if uerr == nil {
		skip, value := false, "None"
		if p, err := rec.Value(); err == nil {
			if haveValue && p.String() == string(rawValue) {
				value = "(Some " + vh.Bytes([]byte(p.String())) + ")"
			} else {
				skip = true
			}
		} else if errors.Is(err, ipns.ErrInvalidPath) {
			skip = true
		}
		seq := "None"
		if s, err := rec.Sequence(); err == nil {
			seq = "(Some " + vh.ZU(s) + ")"
		}
		ttl := "None"
		if d, err := rec.TTL(); err == nil {
			ttl = "(Some " + vh.Z(int64(d)) + ")"
		}
		vt := "None"
		if v, err := rec.ValidityType(); err == nil {
			vt = "(Some " + vh.Z(int64(v)) + ")"
		}
		_, pkErr := rec.PubKey()
		acc = "(Some " + vh.App("mkAccs", vh.Bool(skip), value, seq, instantOpt(rec.Validity()), ttl, vt,
			vh.Bool(!errors.Is(pkErr, ipns.ErrPublicKeyNotFound))) + ")"
		e := ipns.ValidateWithName(rec, nameKey.name)
		vwn = "(Some " + classify(e) + ")"
		accepted = accepted || e == nil
	}
	evv := ipns.Validator{}.Validate(string(nameKey.name.RoutingKey()), raw)
	accepted = accepted || evv == nil
	obs := vh.App("mkObs", classify(uerr), acc, vwn, classify(evv))
	rp := map[string]any{"label": label, "name_key": nameKey.kind, "raw_hex": hex.EncodeToString(raw),
		"validator_validate": classify(evv), "validate_with_name": vwn}
	h.cs.Add(vh.App("CVal", nameKey.nameCoq(), vh.Bool(future), vh.Bytes(raw), oracle, obs), rp)
	cat := label
	if i := strings.IndexByte(label, ':'); i >= 0 {
		cat = label[:i]
	}
	h.st.Case(nameKey.kind+"|"+hex.EncodeToString(raw), cat != "honest")
	h.st.Count("kind:" + cat)
	h.st.Count("key:" + nameKey.kind)
	if accepted {
		h.st.Count("accepted")
	} else {
		h.st.Count("rejected")
	}
	h.st.Sample(rp, 6)
	return accepted
}

// B renders a byte string as a Coq list of Z; long runs of one byte are written
// as (rep x n) (M_C25.rep), which keeps the ~10 KiB records cheap to parse.
func B(b []byte) string {
	if len(b) < 96 {
		return vh.Bytes(b)
	}
	var parts []string
	lit := 0
	flush := func(end int) {
		if end > lit {
			parts = append(parts, vh.Bytes(b[lit:end]))
		}
	}
	for i := 0; i < len(b); {
		j := i
		for j < len(b) && b[j] == b[i] {
			j++
		}
		if j-i >= 48 {
			flush(i)
			parts = append(parts, fmt.Sprintf("rep %d %d", b[i], j-i))
			lit = j
		}
		i = j
	}
	flush(len(b))
	if len(parts) == 1 && !strings.HasPrefix(parts[0], "rep ") {
		return parts[0]
	}
	return "(" + strings.Join(parts, " ++ ") + ")"
}

// emitMem validates a record built by ipns.NewRecord directly (no UnmarshalRecord
// in between): ValidateWithName and Validate on the in-memory record.
func (h *harness) emitMem(label string, k keyPair, rec *ipns.Record) (int, bool) {
	raw, err := ipns.MarshalRecord(rec)
	if err != nil {
		h.t.Fatal(err)
	}
	oracle, future, _, _ := h.oracleFor(k, raw, [][]byte{k.pkb}, B)
	evwn := ipns.ValidateWithName(rec, k.name)
	evk := ipns.Validate(rec, k.pk)
	skb, _ := ic.MarshalPrivateKey(k.sk)
	how := "ipns.NewRecord(sk, \"/ipfs/bafkqaaa/\"+strings.Repeat(\"p\", n), 9, time.Unix(4102444800, 500), 5*time.Minute, opts...) with key type, options and n / serialized size as in the label; then ValidateWithName(rec, name) and Validate(rec, pk) on the record as returned (no UnmarshalRecord)"
	rp := map[string]any{"label": label, "name_key": k.kind, "sk_hex": hex.EncodeToString(skb), "raw_len": len(raw), "how": how,
		"validate_with_name": classify(evwn), "validate": classify(evk)}
	if len(raw) <= 2048 {
		rp["raw_hex"] = hex.EncodeToString(raw)
	}
	h.cs.Add(vh.App("CMem", k.nameCoq(), vh.Bool(future), B(raw), vh.Bytes(k.pkb), oracle, classify(evwn), classify(evk)), rp)
	h.st.Case("M|"+k.kind+"|"+label, true)
	h.st.Count("kind:in-memory")
	h.st.Count("key:" + k.kind)
	if evwn == nil || evk == nil {
		h.st.Count("accepted")
	} else {
		h.st.Count("rejected")
	}
	h.st.Sample(rp, 8)
	return len(raw), evwn == nil || evk == nil
}

func TestC25(t *testing.T) {
	e := vh.Load(t)
	r := e.Rng
	st := vh.NewStats("honest IPNS records (ipns.NewRecord and harness-signed documents) for Ed25519/secp256k1/ECDSA/RSA-2048 keys, " +
		"mutated by: clearing/emptying/altering/adding each of the 9 protobuf fields, byte flips at every position of Data/SignatureV2/PubKey " +
		"(all positions for Ed25519 records, sampled for the others), signature/key/name/document swaps between records and keys, " +
		"duplicate, unknown, reordered, non-minimal and wrong-wire-type fields, re-signed documents with missing/ill-typed/extra/duplicate keys, " +
		"expired records, the 10240-byte boundary, truncations and garbage; each run through UnmarshalRecord, all accessors, ValidateWithName " +
		"and Validator.Validate; non-trivial = not an unmodified honest record; distinct by (name key, bytes)")
	cs := vh.NewCases(e, "From V Require Import lib.CborScalar lib.Ipns model.M_C25.\nOpen Scope Z_scope.", "case", "check_case", 40)
	h := &harness{t: t, cs: cs, st: st}

	ed, ed2, secp, ecdsa, rsa := mkKey(t, "ed25519"), mkKey(t, "ed25519"), mkKey(t, "secp256k1"), mkKey(t, "ecdsa"), mkKey(t, "rsa")
	keys := []keyPair{ed, secp, ecdsa, rsa}

	newRecord := func(k keyPair, seq uint64, future bool, opts ...ipns.Option) []byte {
		p, _ := path.NewPath("/ipfs/bafkqaaa")
		sec := int64(secFuture)
		if !future {
			sec = secPast
		}
		rec, err := ipns.NewRecord(k.sk, p, seq, time.Unix(sec, 500), 5*time.Minute, opts...)
		if err != nil {
			t.Fatal(err)
		}
		raw, err := ipns.MarshalRecord(rec)
		if err != nil {
			t.Fatal(err)
		}
		return raw
	}

	// ---------- 0. the known-finding witness first ----------
	// v2-only Ed25519 record, validly signed, plus a legacy Sequence that contradicts the signed one
	{
		d := stdDoc(5, true)
		fs := signedFields(t, ed, cborMap(canon(d.kvs())), d, false, false)
		h.emit("legacy-ungated:sequence", ed, encFields(withField(fs, vf(5, 999))))
	}

	// ---------- 0b. records that reach validation without UnmarshalRecord ----------
	// Built by NewRecord with a long value path; V1 compatibility stores the value twice,
	// an embedded RSA key and the signatures add to the envelope: the SERIALIZED size
	// is what the 10 KiB limit is about, not the size of the signed Data.
	memRecord := func(k keyPair, n int, opts ...ipns.Option) *ipns.Record {
		p, err := path.NewPath("/ipfs/bafkqaaa/" + strings.Repeat("p", n))
		if err != nil {
			t.Fatal(err)
		}
		rec, err := ipns.NewRecord(k.sk, p, 9, time.Unix(secFuture, 500), 5*time.Minute, opts...)
		if err != nil {
			t.Fatal(err)
		}
		return rec
	}
	sizeOf := func(rec *ipns.Record) int {
		raw, err := ipns.MarshalRecord(rec)
		if err != nil {
			t.Fatal(err)
		}
		return len(raw)
	}
	// padTo searches the value length for which the record serialises to exactly target
	// bytes (per is how often the value occurs in the envelope); ok=false if the
	// signature length keeps moving (DER) or the parity cannot be met.
	padTo := func(k keyPair, target, per int, opts ...ipns.Option) (*ipns.Record, bool) {
		n := target/per - 400
		for try := 0; try < 30; try++ {
			rec := memRecord(k, n, opts...)
			d := target - sizeOf(rec)
			if d == 0 {
				return rec, true
			}
			if d/per == 0 {
				if per > 1 {
					return nil, false
				}
				n += d
			} else {
				n += d / per
			}
		}
		return nil, false
	}
	type memCfg struct {
		k    keyPair
		v1   bool
		opts []ipns.Option
		tag  string
	}
	cfgs := []memCfg{
		{ed, true, nil, "default"},
		{ed, false, []ipns.Option{ipns.WithV1Compatibility(false)}, "v2only"},
		{rsa, true, nil, "default(embedded key)"},
		{rsa, false, []ipns.Option{ipns.WithV1Compatibility(false)}, "v2only(embedded key)"},
		{secp, true, nil, "default"},
		{ecdsa, false, []ipns.Option{ipns.WithV1Compatibility(false), ipns.WithPublicKey(true)}, "v2only+key"},
	}
	for ci, c := range cfgs {
		if !e.Thorough() && ci >= 4 {
			// quick tier: the two other key types only with the plainly oversize record
			nq := 6000
			if !c.v1 {
				nq = 10100 // Data below the limit; signature and key push the envelope over it
			}
			h.emitMem(fmt.Sprintf("in-memory:%s/%s value=%d", c.k.kind, c.tag, nq), c.k, memRecord(c.k, nq, c.opts...))
			continue
		}
		h.emitMem(fmt.Sprintf("in-memory:%s/%s small", c.k.kind, c.tag), c.k, memRecord(c.k, 10, c.opts...))
		per := 1
		if c.v1 {
			per = 2
		}
		for _, target := range []int{ipns.MaxRecordSize - 1, ipns.MaxRecordSize, ipns.MaxRecordSize + 1, ipns.MaxRecordSize + 2} {
			if rec, ok := padTo(c.k, target, per, c.opts...); ok {
				h.emitMem(fmt.Sprintf("in-memory:%s/%s serialized=%d", c.k.kind, c.tag, target), c.k, rec)
			} else {
				st.Count("in-memory:size-not-reached")
			}
		}
		if c.v1 {
			// Data well below the limit, serialized well above it (the value is stored twice)
			h.emitMem(fmt.Sprintf("in-memory:%s/%s value=6000", c.k.kind, c.tag), c.k, memRecord(c.k, 6000, c.opts...))
			h.emitMem(fmt.Sprintf("in-memory:%s/%s value=9900", c.k.kind, c.tag), c.k, memRecord(c.k, 9900, c.opts...))
		} else {
			// Data just below the limit, signature (and key) push the envelope over it
			h.emitMem(fmt.Sprintf("in-memory:%s/%s value=10050", c.k.kind, c.tag), c.k, memRecord(c.k, 10050, c.opts...))
		}
		// Data itself above the limit
		h.emitMem(fmt.Sprintf("in-memory:%s/%s value=10400", c.k.kind, c.tag), c.k, memRecord(c.k, 10400, c.opts...))
	}

	// ---------- 1. honest records and their single-field mutations ----------
	type honest struct {
		k      keyPair
		fs     []field
		label  string
		future bool
	}
	var hs []honest
	for _, k := range keys {
		hs = append(hs,
			honest{k, parseFields(t, newRecord(k, 7, true)), k.kind + "/default", true},
			honest{k, parseFields(t, newRecord(k, 1<<63, true, ipns.WithV1Compatibility(false))), k.kind + "/v2only", true},
			honest{k, parseFields(t, newRecord(k, 7, true, ipns.WithPublicKey(true), ipns.WithV1Compatibility(false))), k.kind + "/v2only+key", true},
		)
	}
	hs = append(hs, honest{ed, parseFields(t, newRecord(ed, 3, false)), "ed25519/expired", false})
	hs = append(hs, honest{rsa, parseFields(t, newRecord(rsa, 3, true, ipns.WithPublicKey(false))), "rsa/nokey", true})
	other := map[string]keyPair{"ed25519": ed2, "secp256k1": ed, "ecdsa": rsa, "rsa": ecdsa}

	mutations := 0
	for hi, ho := range hs {
		if !h.emit("honest:"+ho.label, ho.k, encFields(ho.fs)) && ho.future && ho.label != "rsa/nokey" {
			st.Violate("an honest unexpired record is rejected: "+ho.label, "", map[string]any{"raw_hex": hex.EncodeToString(encFields(ho.fs))})
		}
		// under the wrong name
		h.emit("wrong-name:"+ho.label, other[ho.k.kind], encFields(ho.fs))
		quickLimited := !e.Thorough() && !(hi == 0 || hi == 2 || hi == 7 || hi == 9)
		for num := 1; num <= 9; num++ {
			i := find(ho.fs, num)
			if i < 0 {
				if !e.Thorough() && !(hi <= 2 || hi == 10) {
					continue
				}
				// add the absent field: legacy fields consistent / inconsistent with the signed document
				d := stdDoc(7, ho.future)
				if strings.Contains(ho.label, "v2only") {
					d.seq = 1 << 63
				}
				add := map[int][]field{
					1: {bf(1, []byte(d.value)), bf(1, []byte("/ipfs/bafkqaab")), bf(1, nil)},
					2: {bf(2, []byte{1, 2, 3}), bf(2, nil)},
					3: {vf(3, 0), vf(3, 1)},
					4: {bf(4, []byte(d.validity)), bf(4, []byte("2101-01-01T00:00:00Z")), bf(4, nil)},
					5: {vf(5, d.seq), vf(5, d.seq+1), vf(5, 0)},
					6: {vf(6, uint64(d.ttl)), vf(6, uint64(d.ttl)+1), vf(6, 0)},
					7: {bf(7, ho.k.pkb), bf(7, other[ho.k.kind].pkb), bf(7, []byte{8, 1, 18}), bf(7, nil)},
				}
				for ai, nf := range add[num] {
					h.emit(fmt.Sprintf("add-field:%s f%d #%d", ho.label, num, ai), ho.k, encFields(withField(ho.fs, nf)))
					mutations++
				}
				continue
			}
			if quickLimited && num != 5 && num != 8 && num != 9 {
				continue
			}
			h.emit(fmt.Sprintf("clear-field:%s f%d", ho.label, num), ho.k, encFields(without(ho.fs, num)))
			f := ho.fs[i]
			if f.wt == 2 {
				h.emit(fmt.Sprintf("empty-field:%s f%d", ho.label, num), ho.k, encFields(withField(ho.fs, bf(num, nil))))
				if len(f.b) > 0 {
					positions := []int{0, len(f.b) / 2, len(f.b) - 1}
					if !e.Thorough() {
						positions = []int{len(f.b) - 1}
					}
					for _, pos := range positions {
						b := append([]byte(nil), f.b...)
						b[pos] ^= 1 << uint(r.Intn(8))
						h.emit(fmt.Sprintf("alter-field:%s f%d@%d", ho.label, num, pos), ho.k, encFields(withField(ho.fs, bf(num, b))))
					}
					h.emit(fmt.Sprintf("alter-field:%s f%d append", ho.label, num), ho.k, encFields(withField(ho.fs, bf(num, append(append([]byte(nil), f.b...), 0)))))
					h.emit(fmt.Sprintf("alter-field:%s f%d truncate", ho.label, num), ho.k, encFields(withField(ho.fs, bf(num, f.b[:len(f.b)-1]))))
				}
			} else {
				for _, nv := range []uint64{f.v + 1, 0, 1, f.v | 1<<63, 1<<64 - 1, 1 << 32} {
					if nv != f.v {
						h.emit(fmt.Sprintf("alter-field:%s f%d =%d", ho.label, num, nv), ho.k, encFields(withField(ho.fs, vf(num, nv))))
					}
				}
				h.emit(fmt.Sprintf("alter-field:%s f%d non-minimal", ho.label, num), ho.k, encFields(withField(ho.fs, field{num: num, wt: 0, v: f.v, pad: 2})))
				h.emit(fmt.Sprintf("alter-field:%s f%d wrong-wire-type", ho.label, num), ho.k, encFields(withField(ho.fs, bf(num, uvarint(f.v)))))
			}
			mutations++
		}
	}

	// ---------- 2. byte flips at every position of Data / SignatureV2 / PubKey ----------
	flipAll := func(ho honest, stride int) {
		for _, num := range []int{9, 8, 7} {
			i := find(ho.fs, num)
			if i < 0 {
				continue
			}
			for pos := r.Intn(stride); pos < len(ho.fs[i].b); pos += stride {
				b := append([]byte(nil), ho.fs[i].b...)
				b[pos] ^= 1 << uint(r.Intn(8))
				h.emit(fmt.Sprintf("byte-flip:%s f%d@%d", ho.label, num, pos), ho.k, encFields(withField(ho.fs, bf(num, b))))
			}
		}
	}
	flipAll(hs[2], e.Pick(4, 1))  // ed25519 v2only+key
	flipAll(hs[0], e.Pick(13, 1)) // ed25519 default (legacy fields present)
	flipAll(hs[5], e.Pick(23, 2)) // secp256k1 v2only+key
	flipAll(hs[8], e.Pick(37, 3)) // ecdsa v2only+key
	flipAll(hs[11], e.Pick(97, 7)) // rsa v2only+key

	// ---------- 3. swaps between records and keys ----------
	for _, k := range keys {
		a := parseFields(t, newRecord(k, 10, true, ipns.WithPublicKey(true)))
		b := parseFields(t, newRecord(k, 11, true, ipns.WithPublicKey(true)))
		o := other[k.kind]
		c := parseFields(t, newRecord(o, 10, true, ipns.WithPublicKey(true)))
		get := func(fs []field, n int) field { return fs[find(fs, n)] }
		h.emit("swap:sigv2 from another record of the same key", k, encFields(withField(a, get(b, 8))))
		h.emit("swap:data from another record of the same key", k, encFields(withField(a, get(b, 9))))
		h.emit("swap:data+sigv2 from another record, legacy fields kept", k, encFields(withField(withField(a, get(b, 9)), get(b, 8))))
		h.emit("swap:data+sigv2 from another record, legacy fields dropped", k,
			encFields(withField(withField(without(without(without(without(without(without(a, 1), 2), 3), 4), 5), 6), get(b, 9)), get(b, 8))))
		h.emit("swap:sigv2 by another key", k, encFields(withField(a, get(c, 8))))
		h.emit("swap:pubkey of another key", k, encFields(withField(a, get(c, 7))))
		h.emit("swap:pubkey+sigv2+data of another key", k, encFields(withField(withField(withField(a, get(c, 7)), get(c, 8)), get(c, 9))))
		h.emit("swap:sigv1 as sigv2", k, encFields(withField(a, bf(8, get(a, 2).b))))
		h.emit("swap:whole record of another key under this name", k, encFields(c))
	}

	// ---------- 4. re-encodings: duplicates, unknown fields, order ----------
	for hi4, ho := range []honest{hs[0], hs[2], hs[9], hs[11]} {
		if !e.Thorough() && hi4%2 == 1 {
			continue
		}
		fs := ho.fs
		d9 := fs[find(fs, 9)]
		bad9 := bf(9, append(append([]byte(nil), d9.b[:len(d9.b)-1]...), d9.b[len(d9.b)-1]^1))
		s8 := fs[find(fs, 8)]
		bad8 := bf(8, append(append([]byte(nil), s8.b[:len(s8.b)-1]...), s8.b[len(s8.b)-1]^1))
		h.emit("duplicate:data tampered then honest (last wins)", ho.k, encFields(append(append([]field{}, bad9), fs...)))
		h.emit("duplicate:data honest then tampered", ho.k, encFields(append(cloneFields(fs), bad9)))
		h.emit("duplicate:sigv2 tampered then honest", ho.k, encFields(append(append([]field{}, bad8), fs...)))
		h.emit("duplicate:sigv2 honest then tampered", ho.k, encFields(append(cloneFields(fs), bad8)))
		h.emit("duplicate:whole record twice", ho.k, encFields(append(cloneFields(fs), fs...)))
		rev := cloneFields(fs)
		for i, j := 0, len(rev)-1; i < j; i, j = i+1, j-1 {
			rev[i], rev[j] = rev[j], rev[i]
		}
		h.emit("reorder:fields descending", ho.k, encFields(rev))
		unk := []field{{num: 15, wt: 0, v: 1}, {num: 10, wt: 2, b: []byte("x")}, {num: 1000, wt: 5, v: 7}, {num: 16, wt: 1, v: 9}, {num: 536870911, wt: 0, v: 0}}
		for ui, u := range unk {
			h.emit(fmt.Sprintf("unknown-field:#%d at end", ui), ho.k, encFields(append(cloneFields(fs), u)))
			h.emit(fmt.Sprintf("unknown-field:#%d at start", ui), ho.k, encFields(append([]field{u}, fs...)))
		}
		raw := encFields(fs)
		for _, cut := range []int{0, 1, len(raw) / 2, len(raw) - 1} {
			h.emit(fmt.Sprintf("truncate:%d of %d", cut, len(raw)), ho.k, raw[:cut])
		}
		h.emit("malformed:field number 0", ho.k, append(append([]byte(nil), raw...), 0x00, 0x01))
		h.emit("malformed:wire type 7", ho.k, append(append([]byte(nil), raw...), 0x7f, 0x01))
		h.emit("malformed:length beyond end", ho.k, append(append([]byte(nil), raw...), 0x52, 0x05, 0x01))
	}

	// ---------- 5. re-signed documents ----------
	docVariants := func(d doc) map[string][]byte {
		base := d.kvs()
		m := map[string][]byte{
			"canonical":                  cborMap(canon(base)),
			"non-canonical key order":    cborMap(base),
			"TTL missing":                cborMap(canon(delKV(base, "TTL"))),
			"TTL negative":               cborMap(canon(setKV(base, "TTL", cborInt(-1)))),
			"TTL zero":                   cborMap(canon(setKV(base, "TTL", cborInt(0)))),
			"TTL as text":                cborMap(canon(setKV(base, "TTL", cborText("5")))),
			"TTL above MaxInt64":         cborMap(canon(setKV(base, "TTL", cborHead(0, 1<<63)))),
			"ValidityType 1":             cborMap(canon(setKV(base, "ValidityType", cborInt(1)))),
			"ValidityType -1":            cborMap(canon(setKV(base, "ValidityType", cborInt(-1)))),
			"ValidityType missing":       cborMap(canon(delKV(base, "ValidityType"))),
			"ValidityType as bytes":      cborMap(canon(setKV(base, "ValidityType", cborBytes([]byte{0})))),
			"Validity missing":           cborMap(canon(delKV(base, "Validity"))),
			"Validity malformed":         cborMap(canon(setKV(base, "Validity", cborBytes([]byte("2100-01-01 00:00:00"))))),
			"Validity as text":           cborMap(canon(setKV(base, "Validity", cborText(d.validity)))),
			"Validity with offset":       cborMap(canon(setKV(base, "Validity", cborBytes([]byte("2100-01-01T01:00:00.0000005+01:00"))))),
			"Sequence missing":           cborMap(canon(delKV(base, "Sequence"))),
			"Sequence as text":           cborMap(canon(setKV(base, "Sequence", cborText("5")))),
			"Sequence above MaxInt64":    cborMap(canon(setKV(base, "Sequence", cborHead(0, 1<<63+5)))),
			"Sequence negative":          cborMap(canon(setKV(base, "Sequence", cborInt(-3)))),
			"Value missing":              cborMap(canon(delKV(base, "Value"))),
			"Value as text":              cborMap(canon(setKV(base, "Value", cborText(d.value)))),
			"extra keys":                 cborMap(canon(append(append([]kv{}, base...), kv{"_x", cborText("y")}, kv{"_n", cborInt(-7)}, kv{"_b", []byte{0xf5}}))),
			"duplicate key":              cborMap(append(canon(base), kv{"TTL", cborInt(1)})),
			"trailing byte":              append(cborMap(canon(base)), 0),
			"non-minimal integer":        cborMap(canon(setKV(base, "TTL", []byte{0x18, 0x05}))),
			"indefinite-length map":      append(append([]byte{0xbf}, cborMap(canon(base))[1:]...), 0xff),
			"declared count too large":   append([]byte{0xa6}, cborMap(canon(base))[1:]...),
			"top level is an integer":    cborInt(5),
			"top level is an empty map":  cborMap(nil),
			"non-text key":               append([]byte{0xa1}, append(cborInt(1), cborInt(2)...)...),
		}
		return m
	}
	names := func(m map[string][]byte) []string {
		var out []string
		for k := range m {
			out = append(out, k)
		}
		sort.Strings(out)
		return out
	}
	for ki, k := range keys {
		for _, future := range []bool{true, false} {
			if !future && ki != 0 {
				continue
			}
			d := stdDoc(5, future)
			vs := docVariants(d)
			for _, vn := range names(vs) {
				for _, v1 := range []bool{false, true} {
					if !e.Thorough() && ((ki > 0 && (v1 || len(vn)%3 != ki%3)) || (!future && len(vn)%4 != 0)) {
						continue
					}
					fs := signedFields(t, k, vs[vn], d, v1, !k.inline)
					h.emit(fmt.Sprintf("resigned:%s v1=%v future=%v", vn, v1, future), k, encFields(fs))
				}
			}
		}
	}
	// legacy fields without Value/SignatureV1 on validly signed v2 records (the gate of validateCborDataMatchesPbData)
	for _, k := range []keyPair{ed, rsa} {
		d := stdDoc(5, true)
		base := signedFields(t, k, cborMap(canon(d.kvs())), d, false, !k.inline)
		legacy := map[string][]field{
			"consistent sequence":     {vf(5, 5)},
			"inconsistent sequence":   {vf(5, 6)},
			"inconsistent ttl":        {vf(6, 1)},
			"inconsistent validity":   {bf(4, []byte("2200-01-01T00:00:00Z"))},
			"inconsistent vtype":      {vf(3, 1)},
			"all consistent no value": {vf(3, 0), bf(4, []byte(d.validity)), vf(5, 5), vf(6, uint64(d.ttl))},
			"all inconsistent":        {vf(3, 1), bf(4, []byte("x")), vf(5, 9), vf(6, 9)},
			"empty value + bad seq":   {bf(1, nil), vf(5, 9)},
			"empty sigv1 + bad seq":   {bf(2, nil), vf(5, 9)},
			"value + bad seq":         {bf(1, []byte(d.value)), vf(5, 9)},
			"sigv1 + bad seq":         {bf(2, []byte{1}), vf(5, 9)},
			"sigv1 only":              {bf(2, []byte{1})},
		}
		var ln []string
		for n := range legacy {
			ln = append(ln, n)
		}
		sort.Strings(ln)
		for _, n := range ln {
			fs := cloneFields(base)
			for _, f := range legacy[n] {
				fs = withField(fs, f)
			}
			h.emit("legacy-gate:"+n, k, encFields(fs))
		}
	}

	// ---------- 6. the size boundary ----------
	for _, k := range []keyPair{ed, rsa} {
		d := stdDoc(5, true)
		base := signedFields(t, k, cborMap(canon(d.kvs())), d, false, !k.inline)
		baseLen := len(encFields(base))
		for _, target := range []int{10239, 10240, 10241, 10300} {
			// unknown bytes field 10: tag(1) + len varint(2) + payload
			pad := target - baseLen - 3
			fs := append(cloneFields(base), field{num: 10, wt: 2, b: bytes.Repeat([]byte{0x41}, pad)})
			raw := encFields(fs)
			if len(raw) != target {
				t.Fatalf("size padding: got %d want %d", len(raw), target)
			}
			if e.Thorough() || target <= 10241 {
				h.emit(fmt.Sprintf("size:%d bytes", target), k, raw)
			}
		}
	}

	// ---------- 7. garbage ----------
	ng := e.Pick(10, 400)
	for i := 0; i < ng; i++ {
		b := make([]byte, r.Intn(60))
		r.Read(b)
		h.emit("garbage:random bytes", keys[r.Intn(len(keys))], b)
	}
	// random multi-field mutations of honest records
	nm := e.Pick(40, 1500)
	for i := 0; i < nm; i++ {
		ho := hs[r.Intn(len(hs))]
		if ho.k.kind == "rsa" && r.Intn(3) != 0 {
			ho = hs[r.Intn(3)]
		}
		fs := cloneFields(ho.fs)
		for m := 0; m < 1+r.Intn(3); m++ {
			switch r.Intn(5) {
			case 0:
				fs = without(fs, 1+r.Intn(9))
			case 1:
				if len(fs) > 0 {
					j := r.Intn(len(fs))
					if fs[j].wt == 2 && len(fs[j].b) > 0 {
						fs[j].b[r.Intn(len(fs[j].b))] ^= byte(1 << uint(r.Intn(8)))
					} else if fs[j].wt == 0 {
						fs[j].v += uint64(1 + r.Intn(3))
					}
				}
			case 2:
				if len(fs) > 1 {
					a, b := r.Intn(len(fs)), r.Intn(len(fs))
					fs[a], fs[b] = fs[b], fs[a]
				}
			case 3:
				fs = append(fs, field{num: 10 + r.Intn(20), wt: 0, v: uint64(r.Intn(300))})
			case 4:
				if len(fs) > 0 {
					fs = append(fs, fs[r.Intn(len(fs))])
				}
			}
		}
		h.emit("random-mutation:"+ho.label, ho.k, encFields(fs))
	}
	_ = mutations
	cs.Close()
	st.Write(e)
}
