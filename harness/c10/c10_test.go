// Correspondence harness for C10 (ipld/unixfs/mod DagModifier): generated
// histories of Write/WriteAt/Seek/Read/CtxReadFull/Truncate/Size/Sync/GetNode
// are run on the real DagModifier over files produced by the real importers;
// every return value, and the content of every GetNode() DAG read back through
// the real DagReader, is written into cases_*.v and compared inside Coq with
// the model (model/M_C10.v) and with the byte-array file specification.
package c10

import (
	"bytes"
	"context"
	"errors"
	"fmt"
	"hash/fnv"
	"io"
	"strings"
	"testing"
	"time"

	chunker "github.com/ipfs/boxo/chunker"
	mdag "github.com/ipfs/boxo/ipld/merkledag"
	mdagmock "github.com/ipfs/boxo/ipld/merkledag/test"
	ft "github.com/ipfs/boxo/ipld/unixfs"
	"github.com/ipfs/boxo/ipld/unixfs/importer/balanced"
	help "github.com/ipfs/boxo/ipld/unixfs/importer/helpers"
	"github.com/ipfs/boxo/ipld/unixfs/importer/trickle"
	uio "github.com/ipfs/boxo/ipld/unixfs/io"
	"github.com/ipfs/boxo/ipld/unixfs/mod"
	"github.com/ipfs/boxo/verifcid"
	cid "github.com/ipfs/go-cid"
	ipld "github.com/ipfs/go-ipld-format"
	mh "github.com/multiformats/go-multihash"

	"verif/harness/vh"
)

// ---- configuration of one history ----
type config struct {
	Init      []byte `json:"-"` // = stream(InitSeed, InitLen), or InitLit
	InitSeed  int    `json:"initSeed"`
	InitLen   int    `json:"initLen"`
	InitLit   []byte `json:"initLit,omitempty"`
	Layout    string `json:"layout"`    // trickle | balanced | identity (single identity-CID node)
	InitChunk int    `json:"initChunk"` // chunk size of the initial import
	InitWidth int    `json:"initWidth"`
	Prefix    string `json:"prefix"` // v0 | v1 | blake | identity
	InitRaw   bool   `json:"initRaw"`
	ModChunk  int    `json:"modChunk"` // splitter size of the modifier
	ModWidth  int    `json:"modWidth"`
	ModRaw    int    `json:"modRaw"` // -1 leave default, 0 false, 1 true
}

type op struct {
	Kind   string `json:"k"` // write writeat seek read ctxread truncate size sync getnode
	Data   []byte `json:"-"` // payload = stream(Seed, Len), or Lit
	Seed   int    `json:"seed,omitempty"`
	Len    int    `json:"len,omitempty"`
	Lit    []byte `json:"lit,omitempty"`
	Off    int64  `json:"off,omitempty"`
	Whence int    `json:"wh,omitempty"`
	N      int    `json:"n,omitempty"`
}

// ---- deterministic byte streams, mirrored by gen/ex in M_C10.v ----
func genByte(seed, i int) byte { return byte(1 + (i*i*7+i*(2*seed+3)+seed*101)%251) }

func stream(seed, n int) []byte {
	b := make([]byte, n)
	for i := range b {
		b[i] = genByte(seed, i)
	}
	return b
}

// materialize fills Init and the payloads from their seeds (after generation or JSON decoding).
func materialize(c *config, ops []op) {
	if c.InitLit != nil {
		c.Init = c.InitLit
	} else {
		c.Init = stream(c.InitSeed, c.InitLen)
	}
	for i := range ops {
		if ops[i].Kind != "write" && ops[i].Kind != "writeat" {
			continue
		}
		if ops[i].Lit != nil {
			ops[i].Data = ops[i].Lit
		} else {
			ops[i].Data = stream(ops[i].Seed, ops[i].Len)
		}
	}
}

type src struct{ seed, n int }

// encode renders a byte string as a Coq [list seg] term (expanded by M_C10.ex): greedy
// longest match against zero runs and the streams in use, literal bytes otherwise.
func encode(b []byte, srcs []src) string {
	var segs []string
	var lit []byte
	flush := func() {
		if len(lit) > 0 {
			segs = append(segs, vh.App("SLit", vh.Bytes(lit)))
			lit = nil
		}
	}
	for p := 0; p < len(b); {
		bestLen, best := 0, ""
		if b[p] == 0 {
			k := p
			for k < len(b) && b[k] == 0 {
				k++
			}
			bestLen, best = k-p, vh.App("SZero", vh.Z(int64(k-p)))
		}
		for _, s := range srcs {
			for off := 0; off < s.n; off++ {
				if genByte(s.seed, off) != b[p] {
					continue
				}
				k := 0
				for p+k < len(b) && off+k < s.n && genByte(s.seed, off+k) == b[p+k] {
					k++
				}
				if k > bestLen {
					bestLen, best = k, vh.App("SGen", vh.Z(int64(s.seed)), vh.Z(int64(off)), vh.Z(int64(k)))
				}
			}
		}
		if bestLen >= 3 {
			flush()
			segs = append(segs, best)
			p += bestLen
		} else {
			lit = append(lit, b[p])
			p++
		}
	}
	flush()
	return vh.App("ex", vh.List(segs))
}

func prefixOf(name string) cid.Prefix {
	switch name {
	case "v1":
		return mdag.V1CidPrefix()
	case "blake":
		p := mdag.V1CidPrefix()
		p.MhType = mh.Names["blake2b-256"]
		p.MhLength = -1
		return p
	case "identity":
		return cid.Prefix{Version: 1, Codec: cid.DagProtobuf, MhType: mh.IDENTITY, MhLength: -1}
	}
	return mdag.V0CidPrefix()
}

func sizeSplitter(n int) chunker.SplitterGen {
	return func(r io.Reader) chunker.Splitter { return chunker.NewSizeSplitter(r, int64(n)) }
}

func buildInitial(ctx context.Context, c *config, ds ipld.DAGService) (ipld.Node, error) {
	if c.Layout == "identity" {
		nd := mdag.NodeWithData(ft.FilePBData(c.Init, uint64(len(c.Init))))
		nd.SetCidBuilder(prefixOf("identity"))
		return nd, ds.Add(ctx, nd)
	}
	dbp := help.DagBuilderParams{Dagserv: ds, Maxlinks: c.InitWidth, CidBuilder: prefixOf(c.Prefix), RawLeaves: c.InitRaw}
	db, err := dbp.New(sizeSplitter(c.InitChunk)(bytes.NewReader(c.Init)))
	if err != nil {
		return nil, err
	}
	if c.Layout == "balanced" {
		return balanced.Layout(db)
	}
	return trickle.Layout(db)
}

// a single call gets this long before it counts as hanging; hangs counts them
const opTimeout = 20 * time.Second

var hangs int

// lastErrs collects the texts of the errors seen (diagnostics for the replay test only);
// sawDigestTooLarge records that an error wrapping verifcid.ErrDigestTooLarge was returned
// (the signature of finding C10-7), reset by runHistory.
var (
	lastErrs          []string
	sawDigestTooLarge bool
)

func errClass(err error) string {
	if err != nil && err != io.EOF {
		lastErrs = append(lastErrs, err.Error())
		// an oversize identity CID is refused by the block service either directly
		// (ErrDigestTooLarge) or, when met while fetching children, as merkledag's
		// anonymous "failed to fetch all nodes"
		if errors.Is(err, verifcid.ErrDigestTooLarge) || strings.Contains(err.Error(), "failed to fetch all nodes") {
			sawDigestTooLarge = true
		}
	}
	switch err {
	case nil:
		return "ENone"
	case io.EOF:
		return "EEOF"
	}
	return "EOther"
}

// checkDag verifies the recorded sizes of every node of a file DAG (an oracle on the
// Go side: the recorded sizes are what Seek navigates by) and returns a description of
// the first inconsistency.
func checkDag(ctx context.Context, nd ipld.Node, ds ipld.DAGService) (uint64, string) {
	switch n := nd.(type) {
	case *mdag.RawNode:
		return uint64(len(n.RawData())), ""
	case *mdag.ProtoNode:
		fsn, err := ft.FSNodeFromBytes(n.Data())
		if err != nil {
			return 0, "not unixfs: " + err.Error()
		}
		if len(n.Links()) != fsn.NumChildren() {
			return 0, fmt.Sprintf("links=%d blocksizes=%d", len(n.Links()), fsn.NumChildren())
		}
		total := uint64(len(fsn.Data()))
		for i, l := range n.Links() {
			ch, err := l.GetNode(ctx, ds)
			if err != nil {
				return 0, "missing child: " + err.Error()
			}
			sz, bad := checkDag(ctx, ch, ds)
			if bad != "" {
				return 0, bad
			}
			if sz != fsn.BlockSize(i) {
				return 0, fmt.Sprintf("blocksize[%d]=%d but child holds %d", i, fsn.BlockSize(i), sz)
			}
			total += sz
		}
		if total != fsn.FileSize() {
			return 0, fmt.Sprintf("filesize=%d but content=%d", fsn.FileSize(), total)
		}
		return total, ""
	}
	return 0, "unexpected node type"
}

// runHistory executes the ops on the real DagModifier; it returns the executed prefix of
// ops, the Coq observations and Go-side oracle failures.
func runHistory(e *vh.Env, c *config, ops []op) (done []op, obs []string, oracle []string, inlineRoot bool) {
	ctx, cancel := context.WithCancel(context.Background())
	defer cancel()
	sawDigestTooLarge = false
	materialize(c, ops)
	var srcs []src
	if c.InitLit == nil {
		srcs = append(srcs, src{c.InitSeed, c.InitLen})
	}
	for _, o := range ops {
		if (o.Kind == "write" || o.Kind == "writeat") && o.Lit == nil && o.Len > 0 {
			srcs = append(srcs, src{o.Seed, o.Len})
		}
	}
	ds := mdagmock.Mock()
	nd, err := buildInitial(ctx, c, ds)
	if err != nil {
		return nil, nil, []string{"initial import failed: " + err.Error()}, false
	}
	if pn, ok := nd.(*mdag.ProtoNode); ok && len(pn.Links()) == 0 {
		if fsn, err := ft.FSNodeFromBytes(pn.Data()); err == nil && len(fsn.Data()) > 0 {
			inlineRoot = true // the root is a dag-pb leaf that holds file data itself
		}
	}
	dm, err := mod.NewDagModifier(ctx, nd, ds, sizeSplitter(c.ModChunk))
	if err != nil {
		return nil, nil, []string{"NewDagModifier failed: " + err.Error()}, inlineRoot
	}
	dm.MaxLinks = c.ModWidth
	if c.ModRaw >= 0 {
		dm.RawLeaves = c.ModRaw == 1
	}
	for _, o := range ops {
		var ob string
		stop := false
		call := func() {
			defer func() {
				if r := recover(); r != nil {
					ob, stop = "BPanic", true
				}
			}()
			switch o.Kind {
			case "write":
				n, err := dm.Write(o.Data)
				ob = vh.App("BNum", vh.Z(int64(n)), errClass(err))
			case "writeat":
				n, err := dm.WriteAt(o.Data, o.Off)
				ob = vh.App("BNum", vh.Z(int64(n)), errClass(err))
			case "seek":
				p, err := dm.Seek(o.Off, o.Whence)
				ob = vh.App("BNum", vh.Z(p), errClass(err))
				if p < 0 && err == nil {
					stop = true // the modifier's offsets are garbage from here on
				}
			case "read":
				b := make([]byte, o.N)
				n, err := dm.Read(b)
				ob = vh.App("BRead", encode(b[:n], srcs), errClass(err))
			case "ctxread":
				b := make([]byte, o.N)
				n, err := dm.CtxReadFull(ctx, b)
				ob = vh.App("BRead", encode(b[:n], srcs), errClass(err))
			case "truncate":
				ob = vh.App("BErr", errClass(dm.Truncate(o.Off)))
			case "size":
				s, err := dm.Size()
				ob = vh.App("BNum", vh.Z(s), errClass(err))
			case "sync":
				ob = vh.App("BErr", errClass(dm.Sync()))
			case "getnode":
				nd, err := dm.GetNode()
				if err != nil {
					ob = vh.App("BErr", errClass(err))
					return
				}
				dr, err := uio.NewDagReader(ctx, nd, ds)
				if err != nil {
					ob = vh.App("BErr", errClass(err))
					return
				}
				content, err := io.ReadAll(dr)
				if err != nil {
					ob = vh.App("BErr", errClass(err))
					return
				}
				ob = vh.App("BNode", encode(content, srcs), vh.ZU(dr.Size()))
				if _, bad := checkDag(ctx, nd, ds); bad != "" {
					oracle = append(oracle, "GetNode DAG has inconsistent recorded sizes: "+bad)
				}
				// the recorded sizes must navigate: seek to a few offsets and read the rest
				for _, off := range []int{len(content) / 2, len(content) - 1, e.Rng.Intn(len(content) + 1)} {
					if off < 0 {
						continue
					}
					dr2, _ := uio.NewDagReader(ctx, nd, ds)
					if _, err := dr2.Seek(int64(off), io.SeekStart); err != nil {
						oracle = append(oracle, fmt.Sprintf("seek(%d) in GetNode DAG failed: %v", off, err))
						continue
					}
					rest, _ := io.ReadAll(dr2)
					if !bytes.Equal(rest, content[off:]) {
						oracle = append(oracle, fmt.Sprintf("seek(%d)+read in GetNode DAG differs from sequential read", off))
					}
				}
			}
		}
		// watchdog: a call that does not return (e.g. a walker spinning over a DAG that was
		// changed under it) is recorded like a panic and ends the history
		fin := make(chan struct{})
		go func() { defer close(fin); call() }()
		select {
		case <-fin:
		case <-time.After(opTimeout):
			hangs++
			done = append(done, o)
			obs = append(obs, "BPanic")
			return done, obs, oracle, inlineRoot
		}
		done = append(done, o)
		obs = append(obs, ob)
		if stop {
			break
		}
	}
	return done, obs, oracle, inlineRoot
}

func (o op) payloadCoq() string {
	if o.Lit != nil {
		return vh.App("ex", vh.List([]string{vh.App("SLit", vh.Bytes(o.Lit))}))
	}
	return vh.App("ex", vh.List([]string{vh.App("SGen", vh.Z(int64(o.Seed)), "0", vh.Z(int64(o.Len)))}))
}

func (c *config) initCoq() string {
	if c.InitLit != nil {
		return vh.App("ex", vh.List([]string{vh.App("SLit", vh.Bytes(c.InitLit))}))
	}
	return vh.App("ex", vh.List([]string{vh.App("SGen", vh.Z(int64(c.InitSeed)), "0", vh.Z(int64(c.InitLen)))}))
}

func (o op) coq() string {
	switch o.Kind {
	case "write":
		return vh.App("OWrite", o.payloadCoq())
	case "writeat":
		return vh.App("OWriteAt", o.payloadCoq(), vh.Z(o.Off))
	case "seek":
		return vh.App("OSeek", vh.Z(o.Off), vh.Z(int64(o.Whence)))
	case "read", "ctxread":
		return vh.App("ORead", vh.Z(int64(o.N)))
	case "truncate":
		return vh.App("OTruncate", vh.Z(o.Off))
	case "size":
		return "OSize"
	case "sync":
		return "OSync"
	}
	return "OGetNode"
}

// ---- shadow of the byte-array file, only used to aim the generator at interesting offsets ----
type shadow struct {
	content    []byte
	pos        int64
	lastStart  int64 // offset of the last write
	lastLen    int   // its length
	sinceWrite bool
}

func (s *shadow) writeAt(off int64, b []byte) {
	for int64(len(s.content)) < off {
		s.content = append(s.content, 0)
	}
	for i, x := range b {
		if off+int64(i) < int64(len(s.content)) {
			s.content[off+int64(i)] = x
		} else {
			s.content = append(s.content, x)
		}
	}
}

// payloadLen draws the length of a write: 0, tiny, up to 64, around one chunk, two chunks
func payloadLen(e *vh.Env, chunk int) int {
	r := e.Rng
	var n int
	switch x := r.Intn(20); {
	case x == 0:
		n = 0
	case x < 4:
		n = 1 + r.Intn(3)
	case x < 15:
		n = 1 + r.Intn(64)
	case x < 18:
		n = chunk - 1 + r.Intn(3)
	default:
		n = 2*chunk + r.Intn(3)
	}
	if n < 0 {
		n = 0
	}
	if n > 160 {
		n = 160
	}
	return n
}

func genConfig(e *vh.Env) *config {
	r := e.Rng
	c := &config{}
	var n int
	switch x := r.Intn(40); {
	case x < 4:
		n = 0
	case x < 7:
		n = 1 + r.Intn(3)
	case x < 22:
		n = r.Intn(65)
	case x < 37:
		n = r.Intn(301)
	default:
		n = r.Intn(4097)
	}
	c.InitSeed, c.InitLen = r.Intn(250), n
	chunks := []int{4, 5, 7, 8, 16, 31, 32, 64, 100, 512}
	c.InitChunk = chunks[r.Intn(len(chunks))]
	c.ModChunk = chunks[r.Intn(len(chunks))]
	if n > 600 { // keep the DAG of big files moderate
		c.InitChunk = []int{64, 100, 512}[r.Intn(3)]
	}
	c.InitWidth = 2 + r.Intn(7)
	// the modifier appends with trickle.Append, which interprets the existing DAG by its
	// own MaxLinks: the width the file was built with (assumption of the check)
	c.ModWidth = c.InitWidth
	c.Prefix = []string{"v0", "v0", "v1", "v1", "blake"}[r.Intn(5)]
	c.InitRaw = c.Prefix != "v0" || r.Intn(3) == 0
	c.Layout = "trickle"
	if r.Intn(4) == 0 {
		c.Layout = "balanced"
	}
	if n <= 40 && r.Intn(8) == 0 {
		c.Layout, c.Prefix = "identity", "identity"
	}
	c.ModRaw = -1
	if r.Intn(3) == 0 {
		c.ModRaw = r.Intn(2)
	}
	return c
}

func genOps(e *vh.Env, c *config) []op {
	r := e.Rng
	sh := &shadow{content: stream(c.InitSeed, c.InitLen)}
	seed := 1000 + r.Intn(1000)
	mkPayload := func(n int) (int, int, []byte) {
		seed += 1 + r.Intn(5)
		return seed, n, stream(seed, n)
	}
	n := 1 + r.Intn(20)
	var ops []op
	size := func() int64 { return int64(len(sh.content)) }
	anyOff := func() int64 {
		switch r.Intn(9) {
		case 0:
			return 0
		case 1:
			return size()
		case 2:
			return size() + 1
		case 3:
			return sh.pos
		case 4:
			return sh.lastStart
		case 5:
			return sh.lastStart + int64(sh.lastLen)
		case 6:
			if size() > 0 {
				return int64(r.Intn(int(size())))
			}
			return 0
		case 7:
			k := int64(c.ModChunk)
			return (size() / k) * k // a chunk boundary
		}
		return int64(r.Intn(int(size()) + 65))
	}
	for i := 0; i < n; i++ {
		var o op
		switch x := r.Intn(100); {
		case x < 22:
			o = op{Kind: "write"}
			o.Seed, o.Len, o.Data = mkPayload(payloadLen(e, c.ModChunk))
			sh.writeAt(sh.pos, o.Data)
			sh.lastStart, sh.lastLen = sh.pos, len(o.Data)
			sh.pos += int64(len(o.Data))
		case x < 50:
			o = op{Kind: "writeat", Off: anyOff()}
			o.Seed, o.Len, o.Data = mkPayload(payloadLen(e, c.ModChunk))
			if r.Intn(3) == 0 { // aim at the pending write with a shorter / equal / longer payload
				o.Off = sh.lastStart
				ln := sh.lastLen + r.Intn(3) - 1
				if ln < 0 {
					ln = 0
				}
				o.Seed, o.Len, o.Data = mkPayload(ln)
			}
			sh.writeAt(o.Off, o.Data)
			sh.lastStart, sh.lastLen = o.Off, len(o.Data)
			sh.pos = o.Off + int64(len(o.Data))
		case x < 65:
			wh := r.Intn(3)
			if r.Intn(25) == 0 {
				wh = []int{3, -1, 7}[r.Intn(3)]
			}
			tgt := anyOff()
			if r.Intn(8) == 0 {
				tgt = int64(r.Intn(4)) - 3 // -3..0: seeks before the start
			}
			o = op{Kind: "seek", Whence: wh}
			switch wh {
			case 0:
				o.Off = tgt
			case 1:
				o.Off = tgt - sh.pos
			case 2:
				o.Off = tgt - size()
			default:
				o.Off = tgt
			}
			if wh >= 0 && wh <= 2 && tgt >= 0 {
				sh.writeAt(tgt, nil)
				sh.pos = tgt
			}
		case x < 80:
			k := "read"
			if r.Intn(3) == 0 {
				k = "ctxread"
			}
			var ln int
			switch y := r.Intn(10); {
			case y == 0:
				ln = 0
			case y < 4:
				ln = 1 + r.Intn(4)
			case y < 8:
				ln = r.Intn(2*c.ModChunk + 1)
			default:
				ln = int(size()) + r.Intn(3)
			}
			if ln > 5000 {
				ln = 5000
			}
			o = op{Kind: k, N: ln}
			rest := size() - sh.pos
			if rest < 0 {
				rest = 0
			}
			if int64(ln) < rest {
				rest = int64(ln)
			}
			sh.pos += rest
		case x < 88:
			o = op{Kind: "truncate", Off: anyOff()}
			if r.Intn(4) == 0 && o.Off > 0 {
				o.Off--
			}
			if o.Off < size() {
				sh.content = sh.content[:o.Off]
			} else {
				sh.writeAt(o.Off, nil)
			}
		case x < 92:
			o = op{Kind: "size"}
		case x < 95:
			o = op{Kind: "sync"}
		default:
			o = op{Kind: "getnode"}
		}
		ops = append(ops, o)
	}
	return append(ops, op{Kind: "getnode"})
}

// growsFile tells whether the history extends the file past its current end at some point
// (sizes and positions of the byte-array file; only used for the signature of finding C10-8).
func growsFile(size0 int, ops []op) bool {
	size, pos := int64(size0), int64(0)
	grown := false
	grow := func(to int64) {
		if to > size {
			size, grown = to, true
		}
	}
	for _, o := range ops {
		switch o.Kind {
		case "write":
			pos += int64(len(o.Data))
			grow(pos)
		case "writeat":
			pos = o.Off + int64(len(o.Data))
			grow(pos)
		case "seek":
			t := int64(-1)
			switch o.Whence {
			case 0:
				t = o.Off
			case 1:
				t = pos + o.Off
			case 2:
				t = size + o.Off
			}
			if t >= 0 {
				pos = t
				grow(pos)
			}
		case "read", "ctxread":
			if rest := size - pos; rest > 0 {
				pos += min(rest, int64(o.N))
			}
		case "truncate":
			if o.Off > size {
				grow(o.Off)
			} else {
				size = o.Off
			}
		}
	}
	return grown
}

func b(s string) []byte { return []byte(s) }

// hand-written corpus: the witnesses of the six findings, each on a single-leaf and a
// multi-leaf file
func corpus() [][]op {
	return [][]op{
		// C10-1 WriteAt overlap with buffered data
		{{Kind: "write", Lit: b("abcdef")}, {Kind: "writeat", Lit: b("XY"), Off: 0}, {Kind: "getnode"}},
		// C10-2 WriteAt never sets curWrOff
		{{Kind: "writeat", Lit: b("AAAA"), Off: 10}, {Kind: "writeat", Lit: b("BB"), Off: 4}, {Kind: "getnode"}},
		{{Kind: "write", Lit: b("abcdef")}, {Kind: "writeat", Lit: b("UVWXYZ"), Off: 0}, {Kind: "seek", Off: 0, Whence: 1}, {Kind: "getnode"}},
		// C10-3 Seek(SeekEnd) sign
		{{Kind: "seek", Off: -3, Whence: 2}, {Kind: "size"}, {Kind: "read", N: 10}, {Kind: "getnode"}},
		{{Kind: "seek", Off: 3, Whence: 2}, {Kind: "size"}, {Kind: "getnode"}},
		// C10-4 stale reader
		{{Kind: "read", N: 2}, {Kind: "truncate", Off: 5}, {Kind: "read", N: 100}, {Kind: "getnode"}},
		{{Kind: "read", N: 2}, {Kind: "seek", Off: 15, Whence: 0}, {Kind: "seek", Off: 8, Whence: 0}, {Kind: "read", N: 10}, {Kind: "getnode"}},
		{{Kind: "read", N: 2}, {Kind: "truncate", Off: 14}, {Kind: "read", N: 100}, {Kind: "getnode"}},
		// C10-5 Read does not advance writeStart
		{{Kind: "read", N: 2}, {Kind: "write", Lit: b("X")}, {Kind: "getnode"}},
		{{Kind: "ctxread", N: 3}, {Kind: "writeat", Lit: b("XY"), Off: 3}, {Kind: "getnode"}},
		// C10-6 Seek before the start
		{{Kind: "seek", Off: -1, Whence: 0}, {Kind: "seek", Off: 0, Whence: 1}, {Kind: "getnode"}},
		{{Kind: "seek", Off: -11, Whence: 2}, {Kind: "size"}, {Kind: "getnode"}},
		{{Kind: "seek", Off: 4, Whence: 0}, {Kind: "seek", Off: -5, Whence: 1}, {Kind: "seek", Off: 0, Whence: 1}},
	}
}

func describe(ops []op) string {
	var sb strings.Builder
	for _, o := range ops {
		switch o.Kind {
		case "write":
			fmt.Fprintf(&sb, "W%d ", len(o.Data))
		case "writeat":
			fmt.Fprintf(&sb, "WA%d@%d ", len(o.Data), o.Off)
		case "seek":
			fmt.Fprintf(&sb, "S%d/%d ", o.Off, o.Whence)
		case "read", "ctxread":
			fmt.Fprintf(&sb, "R%d ", o.N)
		case "truncate":
			fmt.Fprintf(&sb, "T%d ", o.Off)
		default:
			sb.WriteString(o.Kind[:2] + " ")
		}
	}
	return sb.String()
}

func TestC10(t *testing.T) {
	e := vh.Load(t)
	st := vh.NewStats("histories of 1..21 calls (Write, WriteAt, Seek x3 whences + invalid, Read, CtxReadFull, Truncate, Size, Sync, GetNode) " +
		"on the real DagModifier over files of 0..4096 bytes imported by trickle/balanced layout (chunk 4..512, width 2..8, raw/dag-pb leaves, " +
		"CIDv0/v1/blake2b/identity), modifier splitter 4..512 and MaxLinks 2..8; offsets aimed at 0, size, size+1, current position, the pending " +
		"write's start/end, chunk boundaries, anywhere in [0,size+64]; non-trivial = at least 5 calls with >= 2 writes and >= 1 seek/read/truncate; " +
		"distinct by (config, ops)")
	cs := vh.NewCases(e, "From V Require Import model.M_C10.\nOpen Scope Z_scope.", "case", "check_case", 125)
	n := e.Pick(1000, 16000)
	corp := corpus()
	ten := b("0123456789")
	type job struct {
		c   *config
		ops []op
	}
	var jobs []job
	for _, ops := range corp {
		init := ten
		if ops[0].Kind == "write" || ops[0].Kind == "writeat" {
			init = []byte{}
		}
		jobs = append(jobs, job{&config{InitLit: init, Layout: "trickle", InitChunk: 512, InitWidth: 4, Prefix: "v0", ModChunk: 512, ModWidth: 4, ModRaw: -1}, ops})
		jobs = append(jobs, job{&config{InitLit: init, Layout: "trickle", InitChunk: 4, InitWidth: 2, Prefix: "v1", InitRaw: true, ModChunk: 4, ModWidth: 2, ModRaw: -1}, ops})
	}
	// witnesses of the two findings below the byte level (findings/C10.json C10-7, C10-8)
	jobs = append(jobs, job{&config{InitSeed: 1, InitLen: 13, Layout: "identity", InitChunk: 7, InitWidth: 2, Prefix: "identity", InitRaw: true, ModChunk: 7, ModWidth: 2, ModRaw: 1},
		[]op{{Kind: "write", Seed: 1000, Len: 64}, {Kind: "sync"}, {Kind: "writeat", Seed: 1001, Len: 3, Off: 65}, {Kind: "getnode"}}})
	jobs = append(jobs, job{&config{InitSeed: 1, InitLen: 18, Layout: "balanced", InitChunk: 64, InitWidth: 4, Prefix: "v0", ModChunk: 64, ModWidth: 4, ModRaw: -1},
		[]op{{Kind: "writeat", Seed: 1000, Len: 53, Off: 6}, {Kind: "writeat", Seed: 1001, Len: 4, Off: 23}, {Kind: "read", N: 61}, {Kind: "getnode"}}})
	for len(jobs) < n {
		c := genConfig(e)
		jobs = append(jobs, job{c, genOps(e, c)})
	}
	var prefIdx []string
	for k := 1; k <= 6; k++ {
		if e.Known[fmt.Sprintf("C10-%d", k)] {
			prefIdx = append(prefIdx, vh.N(uint64(k)))
		}
	}
	pref := vh.List(prefIdx)
	for _, j := range jobs {
		if hangs >= 3 { // every hung call keeps a goroutine spinning: enough evidence
			break
		}
		done, obs, oracle, inlineRoot := runHistory(e, j.c, j.ops)
		rp := map[string]any{"config": j.c, "ops": done}
		for _, msg := range oracle {
			st.Violate(msg, "", rp)
		}
		if done == nil {
			continue
		}
		hint := 0
		if j.c.Prefix == "identity" && sawDigestTooLarge {
			hint = 7
			st.Count("signature:C10-7 (identity digest too large)")
		} else if inlineRoot && growsFile(len(j.c.Init), done) {
			hint = 8
			st.Count("signature:C10-8 (inline-data root grown)")
		}
		term := vh.App("Build_case", j.c.initCoq(), vh.ListOf(done, func(o op) string { return o.coq() }), vh.List(obs),
			vh.N(uint64(hint)), pref)
		cs.Add(term, rp)
		writes, others := 0, 0
		for _, o := range done {
			switch o.Kind {
			case "write", "writeat":
				writes++
			case "seek", "read", "ctxread", "truncate":
				others++
			}
			st.Count("op:" + o.Kind)
		}
		hk := fnv.New64a()
		fmt.Fprintf(hk, "%v|%v", *j.c, done)
		key := fmt.Sprintf("%x", hk.Sum64())
		st.Case(key, len(done) >= 5 && writes >= 2 && others >= 1)
		st.Count("layout:" + j.c.Layout)
		st.Count("prefix:" + j.c.Prefix)
		switch l := len(j.c.Init); {
		case l == 0:
			st.Count("init:0")
		case l <= 64:
			st.Count("init:1-64")
		case l <= 300:
			st.Count("init:65-300")
		default:
			st.Count("init:301-4096")
		}
		st.Sample(map[string]any{"config": fmt.Sprintf("%s/%s chunk=%d/%d width=%d/%d init=%d", j.c.Layout, j.c.Prefix, j.c.InitChunk, j.c.ModChunk, j.c.InitWidth, j.c.ModWidth, len(j.c.Init)), "ops": describe(done)}, 6)
	}
	cs.Close()
	st.Write(e)
}
