package c10

import (
	"encoding/json"
	"fmt"
	"os"
	"testing"

	"verif/harness/vh"
)

// TestC10Replay re-runs one recorded history (the "replay" object of a violation file or
// of cases.json) given in the file named by VERIF_REPLAY_CASE and prints what the real
// DagModifier answered.
func TestC10Replay(t *testing.T) {
	path := os.Getenv("VERIF_REPLAY_CASE")
	if path == "" {
		t.Skip("VERIF_REPLAY_CASE not set")
	}
	raw, err := os.ReadFile(path)
	if err != nil {
		t.Fatal(err)
	}
	var rp struct {
		Replay *struct {
			Config config `json:"config"`
			Ops    []op   `json:"ops"`
		} `json:"replay"`
		Config *config `json:"config"`
		Ops    []op    `json:"ops"`
	}
	if err := json.Unmarshal(raw, &rp); err != nil {
		t.Fatal(err)
	}
	c, ops := rp.Config, rp.Ops
	if rp.Replay != nil {
		c, ops = &rp.Replay.Config, rp.Replay.Ops
	}
	e := vh.Load(t)
	done, obs, oracle, inline := runHistory(e, c, ops)
	fmt.Println("inline-data root:", inline, " digest-too-large seen:", sawDigestTooLarge)
	for i := range done {
		s := obs[i]
		if len(s) > 200 {
			s = s[:200] + "..."
		}
		fmt.Printf("%2d %-10s off=%d wh=%d n=%d len(d)=%d -> %s\n", i, done[i].Kind, done[i].Off, done[i].Whence, done[i].N, len(done[i].Data), s)
	}
	for _, m := range lastErrs {
		fmt.Println("ERROR TEXT:", m)
	}
	for _, m := range oracle {
		fmt.Println("ORACLE:", m)
	}
}
