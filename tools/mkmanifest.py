#!/usr/bin/env python3
"""Regenerates MANIFEST.json from spec/*.json (one file per claimed property)."""
import glob, json, os
ROOT = os.path.dirname(os.path.dirname(os.path.abspath(__file__)))
props = [json.loads(l) for l in open(os.path.join(ROOT, "properties.jsonl"))]
ids = [p["id"] for p in props]
specs = {}
# only properties the lead has accepted (spec/accepted.txt) are claimed; other spec files are work in progress
accepted = set(open(os.path.join(ROOT, "spec", "accepted.txt")).read().split())
for sp in sorted(glob.glob(os.path.join(ROOT, "spec", "C*.json"))):
    s = json.load(open(sp))
    if s["id"] in accepted:
        specs[s["id"]] = s
na_path = os.path.join(ROOT, "spec", "not_applicable.json")
na = json.load(open(na_path)) if os.path.exists(na_path) else {}
hooks_path = os.path.join(ROOT, "MANIFEST.hooks")
commits = []
if os.path.exists(hooks_path):
    for l in open(hooks_path):
        l = l.strip()
        if l and not l.startswith("#"):
            commits.append(l.split()[0])
checks = []
for pid in ids:
    if pid not in specs:
        continue
    s = specs[pid]; m = s["manifest"]
    checks.append({
        "property_id": pid,
        "quick_cmd": "./check %s --tier quick" % pid,
        "thorough_cmd": "./check %s --tier thorough" % pid,
        "evidence_file": "/verif/evidence/%s.json" % pid,
        "replay_cmd_template": "./check %s --replay {path}" % pid,
        "engine": "coq-proof+correspondence",
        "level_claimed": {"category": "proof", "text": m["level_text"], "design_ref": m.get("design_ref", "DESIGN.md §6 " + pid)},
        "level_note": m["level_note"],
        "technique": m.get("technique", "Coq proof + correspondence check"),
    })
not_app = [{"property_id": pid, "reason": na.get(pid, "no check built yet: the Coq model and correspondence harness for this property are not written; nothing is claimed")}
           for pid in ids if pid not in specs]
manifest = {
    "version": 1,
    "setup_cmd": "make -C /verif setup",
    "hooks": {
        "guard": "verif",
        "enable": "Go build tag: go test -tags verif (harness module /verif/harness with replace github.com/ipfs/boxo => /repo)",
        "baseline_off_cmd": "cd /repo && export GOFLAGS=-mod=mod GOPROXY=off && go test -json -vet=off -count=1 -timeout 25m ./...",
        "source_commits": commits,
        "add_only": True,
    },
    "engines": [{
        "name": "coq-proof+correspondence", "path": "/verif/check",
        "serves_properties": [c["property_id"] for c in checks],
        "kind_free_text": "Coq 8.16.1 theorems about executable Gallina models (coq/), models tied to /repo on every run by the go2coq translator (tools/go2coq) and by a Go differential harness whose observations are evaluated against model and specification inside Coq (harness/, cases_*.v)",
    }],
    "checks": checks,
    "notes": "See DESIGN.md. ./check Cxx rebuilds from /repo's working tree on every run. known_findings.json + findings/Cxx.json list genuine defects (status known: KNOWN-FINDING lines; status fixed: repaired by the named fix: commit, suppresses nothing); KNOWN_FINDINGS.txt is the generated digest. Seeded-change tests: seeded/, DESIGN.md §11.2.",
    "not_applicable": not_app,
}
json.dump(manifest, open(os.path.join(ROOT, "MANIFEST.json"), "w"), indent=1)
print("MANIFEST.json: %d checks, %d not claimed" % (len(checks), len(not_app)))
