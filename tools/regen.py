#!/usr/bin/env python3
"""Run go2coq for every spec/*.json that lists translated functions (used by `make setup`;
each ./check run does the same for its own property)."""
import glob, json, os, subprocess, sys
ROOT = os.path.dirname(os.path.dirname(os.path.abspath(__file__)))
REPO = os.environ.get("VERIF_REPO", "/repo")
env = dict(os.environ); env.update({"GOFLAGS": "-mod=mod", "GOPROXY": "off"}); env.pop("GOTOOLCHAIN", None); env.pop("GOSUMDB", None)
tool = os.path.join(ROOT, "tools", "go2coq", "go2coq")
rc = 0
os.makedirs(os.path.join(ROOT, "coq", "gen"), exist_ok=True)
for sp in sorted(glob.glob(os.path.join(ROOT, "spec", "C*.json"))):
    spec = json.load(open(sp))
    for it in spec.get("translate", []):
        cmd = [tool, "-dir", os.path.join(REPO, it["dir"]), "-module", it["module"],
               "-o", os.path.join(ROOT, "coq", "gen", it["module"] + ".v"), "-funcs", it["funcs"]]
        if it.get("config"):
            cmd += ["-config", os.path.join(ROOT, it["config"])]
        if it.get("tags", "verif"):
            cmd += ["-tags", it.get("tags", "verif")]
        p = subprocess.run(cmd, cwd=os.path.join(REPO, it["dir"]), env=env)
        if p.returncode != 0:
            print("go2coq failed for", spec["id"], it["module"], file=sys.stderr); rc = 1
sys.exit(rc)
