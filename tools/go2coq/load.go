package main

// Package loading: parse the package's own files with go/parser, type-check
// with go/types, and resolve imports from compiler export data located with a
// single `go list -export -deps -json` call.  Works offline (needs a warm build
// cache or the sources in the module cache) and needs nothing outside the
// standard library.

import (
	"bytes"
	"encoding/json"
	"fmt"
	"go/ast"
	"go/importer"
	"go/parser"
	"go/token"
	"go/types"
	"io"
	"os"
	"os/exec"
	"path/filepath"
	"sort"
)

// HarnessFileName is the file written by -harness; it is never parsed as
// input so that a stale harness cannot break translation.
const HarnessFileName = "zz_go2coq_harness.go"

type listedPkg struct {
	ImportPath string
	Dir        string
	Name       string
	Export     string
	GoFiles    []string
	CgoFiles   []string
	ImportMap  map[string]string
	DepOnly    bool
	Error      *struct{ Err string }
}

type Loaded struct {
	Fset    *token.FileSet
	Pkg     *types.Package
	Info    *types.Info
	Files   []*ast.File
	Src     map[string][]byte // file name -> content
	Dir     string
	PkgPath string
}

func loadPackage(dir string, tags string) (*Loaded, error) {
	absDir, err := filepath.Abs(dir)
	if err != nil {
		return nil, err
	}
	args := []string{"list", "-e", "-export", "-deps", "-json=ImportPath,Dir,Name,Export,GoFiles,CgoFiles,ImportMap,DepOnly,Error"}
	if tags != "" {
		args = append(args, "-tags", tags)
	}
	args = append(args, ".")
	cmd := exec.Command("go", args...)
	cmd.Dir = absDir
	var stdout, stderr bytes.Buffer
	cmd.Stdout = &stdout
	cmd.Stderr = &stderr
	if err := cmd.Run(); err != nil {
		return nil, fmt.Errorf("go list in %s failed: %v\n%s", absDir, err, stderr.String())
	}
	exports := map[string]string{}
	var target *listedPkg
	dec := json.NewDecoder(&stdout)
	for {
		var p listedPkg
		if err := dec.Decode(&p); err == io.EOF {
			break
		} else if err != nil {
			return nil, fmt.Errorf("go list output: %v", err)
		}
		if p.Export != "" {
			exports[p.ImportPath] = p.Export
		}
		if !p.DepOnly {
			q := p
			target = &q
		}
	}
	if target == nil {
		return nil, fmt.Errorf("go list in %s returned no target package\n%s", absDir, stderr.String())
	}
	if len(target.CgoFiles) > 0 {
		return nil, fmt.Errorf("package %s uses cgo: unsupported", target.ImportPath)
	}

	fset := token.NewFileSet()
	ld := &Loaded{Fset: fset, Src: map[string][]byte{}, Dir: target.Dir, PkgPath: target.ImportPath}
	names := append([]string(nil), target.GoFiles...)
	sort.Strings(names)
	for _, name := range names {
		if name == HarnessFileName {
			continue
		}
		full := filepath.Join(target.Dir, name)
		src, err := os.ReadFile(full)
		if err != nil {
			return nil, err
		}
		f, err := parser.ParseFile(fset, full, src, parser.ParseComments|parser.SkipObjectResolution)
		if err != nil {
			return nil, err
		}
		ld.Files = append(ld.Files, f)
		ld.Src[full] = src
	}
	if len(ld.Files) == 0 {
		msg := ""
		if target.Error != nil {
			msg = ": " + target.Error.Err
		}
		return nil, fmt.Errorf("no Go files for package in %s%s", absDir, msg)
	}

	lookup := func(path string) (io.ReadCloser, error) {
		if mapped, ok := target.ImportMap[path]; ok {
			path = mapped
		}
		file, ok := exports[path]
		if !ok {
			return nil, fmt.Errorf("no export data for %q (go list -export gave none)", path)
		}
		return os.Open(file)
	}
	imp := importer.ForCompiler(fset, "gc", lookup)
	info := &types.Info{
		Types:      map[ast.Expr]types.TypeAndValue{},
		Defs:       map[*ast.Ident]types.Object{},
		Uses:       map[*ast.Ident]types.Object{},
		Selections: map[*ast.SelectorExpr]*types.Selection{},
		Implicits:  map[ast.Node]types.Object{},
		Scopes:     map[ast.Node]*types.Scope{},
		Instances:  map[*ast.Ident]types.Instance{},
	}
	var terrs []error
	conf := types.Config{
		Importer: imp,
		Sizes:    types.SizesFor("gc", "amd64"),
		Error:    func(err error) { terrs = append(terrs, err) },
	}
	pkg, _ := conf.Check(target.ImportPath, fset, ld.Files, info)
	if len(terrs) > 0 {
		var b bytes.Buffer
		for i, e := range terrs {
			if i == 10 {
				fmt.Fprintf(&b, "... and %d more\n", len(terrs)-10)
				break
			}
			fmt.Fprintln(&b, e)
		}
		return nil, fmt.Errorf("type errors in %s:\n%s", target.ImportPath, b.String())
	}
	ld.Pkg = pkg
	ld.Info = info
	return ld, nil
}
