#!/usr/bin/env bash
# selftest.sh -- end-to-end validation of go2coq.
#
#   1. builds the tool and compiles /verif/coq/lib/GoInt.v (no axioms allowed);
#   2. translates the synthetic package testdata/g0 and the real targets, both
#      from /repo and from the verbatim copies under testdata/real, and checks
#      that (a) the SHA-256 of every function's source text is the same in /repo
#      and in the copy and (b) the generated Coq definitions are textually
#      identical (so constants resolved from the real imports agree too);
#   3. runs every Go function on N (default 2000) seeded + boundary argument
#      tuples through the generated harness and checks with coqc/vm_compute
#      that the Gallina generated FROM /repo (for the real targets) gives the
#      same results and the same panic/_ok behaviour;
#   4. checks that everything outside the subset is rejected (testdata/reject),
#      that output is deterministic and not rewritten when unchanged, and
#      compiles testdata/Example_proof.v.
#
# Prints one line per function: "OK <name> <n points>" or "FAIL ...".
# Exit status is non-zero on any failure.
#
# Environment: SEED (default 1), N (default 2000), JOBS (default 4),
# KEEP=1 keeps the work directory.

set -u
HERE="$(cd "$(dirname "${BASH_SOURCE[0]}")" && pwd)"
COQROOT="$(cd "$HERE/../../coq" && pwd)"
REPO="${REPO:-/repo}"
SEED="${SEED:-1}"
N="${N:-2000}"
JOBS="${JOBS:-4}"
export GOFLAGS=-mod=mod GOPROXY=off

W="$(mktemp -d /tmp/go2coq-selftest.XXXXXX)"
cleanup() {
  if [ "${KEEP:-0}" = 1 ]; then echo "work directory kept: $W"; else rm -rf "$W"; fi
  find "$HERE/testdata" -name zz_go2coq_harness.go -delete
}
trap cleanup EXIT

fails=0
fail() { echo "FAIL $*"; fails=$((fails + 1)); }
T0=$(date +%s)
note() { echo "-- [$(( $(date +%s) - T0 ))s] $*"; }

# ------------------------------------------------------------------ 1. build
note "building go2coq"
(cd "$HERE" && go build -p 4 -o go2coq .) || { echo "FAIL build go2coq"; exit 1; }
G="$HERE/go2coq"

note "compiling GoInt.v"
mkdir -p "$W/coq/lib"
cp "$COQROOT/lib/GoInt.v" "$W/coq/lib/GoInt.v"
(cd "$W/coq" && timeout 300 coqc -Q "$W/coq" V lib/GoInt.v >"$W/goint.log" 2>&1) || { cat "$W/goint.log"; echo "FAIL GoInt.v does not compile"; exit 1; }
if grep -v "Closed under the global context" "$W/goint.log" | grep -q .; then
  cat "$W/goint.log"; fail "GoInt.v: Print Assumptions reports axioms"
fi
if grep -nE '\b(Axiom|Parameter|Admitted|admit)\b' "$COQROOT/lib/GoInt.v" "$HERE/testdata/Example_proof.v" 2>/dev/null | grep -v '^\S*:[0-9]*: *(\*'; then
  fail "Axiom/Parameter/Admitted/admit found in a .v file"
fi
COQ="coqc -Q $W/coq V -Q $W/gen T"
mkdir -p "$W/gen" "$W/genrepo" "$W/chk"

# ------------------------------------------------------------------ 2. translate
# translate <tag> <dir> <module> <funcs> [config] [harness-file]
translate() {
  local out="$1" dir="$2" module="$3" funcs="$4" cfg="${5:-}" harness="${6:-}"
  "$G" -dir "$dir" -module "$module" -o "$out/$module.v" -funcs "$funcs" \
    ${cfg:+-config "$cfg"} ${harness:+-harness "$harness"}
}

T="$HERE/testdata"
note "translating testdata/g0"
G0FUNCS="$(grep -v '^#' "$T/g0/g0.funcs" | paste -sd, -)"
translate "$W/gen" "$T/g0" Gen_g0 "$G0FUNCS" "$T/g0/g0.json" "$T/g0/zz_go2coq_harness.go" || fail "translate g0"

# real targets: name | repo dir | copy dir | funcs | repo config | copy config
REAL="
files|$REPO/files|$T/real/files|ModePermsToUnixPerms,UnixPermsToModePerms||
uio|$REPO/ipld/unixfs/io|$T/real/uio|varintLen,linkSerializedSize|$T/real/uio/g2c.json|$T/real/uio/g2c.json
namesys|$REPO/namesys|$T/real/namesys|minNonZeroTTL||
peering|$REPO/peering|$T/real/peering|(*peerHandler).nextBackoff|$T/real/peering/repo.json|$T/real/peering/g2c.json
trickle|$REPO/ipld/unixfs/importer/trickle|$T/real/trickle|trickleDepthInfo|$T/real/trickle/g2c.json|$T/real/trickle/g2c.json
verifcid|$REPO/verifcid|$T/real/verifcid|(defaultAllowlist).IsAllowed,(defaultAllowlist).MinDigestSize,(defaultAllowlist).MaxDigestSize||
"
strip_comments() { grep -v '^(\*' "$1"; }
REALPKGS=""
while IFS='|' read -r name rdir cdir funcs rcfg ccfg; do
  [ -z "$name" ] && continue
  REALPKGS="$REALPKGS $name"
  note "translating $name from $rdir and from its copy"
  # the module validated below is the one generated from /repo
  translate "$W/gen" "$rdir" "Gen_$name" "$funcs" "$rcfg" || { fail "translate $name from /repo"; continue; }
  translate "$W/genrepo" "$cdir" "Gen_$name" "$funcs" "$ccfg" "$cdir/zz_go2coq_harness.go" || { fail "translate copy of $name"; continue; }
  # (a) same source text
  if ! diff <(grep source_sha256 "$W/gen/Gen_$name.v.json") <(grep source_sha256 "$W/genrepo/Gen_$name.v.json") >/dev/null; then
    fail "$name: testdata copy is not verbatim (source SHA-256 differs from $rdir)"
  fi
  # (b) same model (constants included)
  if ! diff <(strip_comments "$W/gen/Gen_$name.v") <(strip_comments "$W/genrepo/Gen_$name.v") >"$W/$name.diff"; then
    cat "$W/$name.diff"; fail "$name: model generated from /repo differs from model generated from the copy"
  fi
done <<<"$REAL"

# determinism and write-if-changed
note "determinism"
cp "$W/gen/Gen_g0.v" "$W/Gen_g0.first"; cp "$W/gen/Gen_g0.v.json" "$W/Gen_g0.json.first"
touch -d '2001-01-01' "$W/gen/Gen_g0.v" "$W/gen/Gen_g0.v.json"
translate "$W/gen" "$T/g0" Gen_g0 "$G0FUNCS" "$T/g0/g0.json" || fail "retranslate g0"
cmp -s "$W/gen/Gen_g0.v" "$W/Gen_g0.first" && cmp -s "$W/gen/Gen_g0.v.json" "$W/Gen_g0.json.first" || fail "output is not deterministic"
[ "$(stat -c %Y "$W/gen/Gen_g0.v")" = "$(date -d '2001-01-01' +%s)" ] || fail "unchanged output was rewritten"

# ------------------------------------------------------------------ 3. validate
note "compiling generated modules"
export COQ W
echo g0 $REALPKGS | tr ' ' '\n' | xargs -P "$JOBS" -I{} sh -c 'cd "$W/gen" && timeout 300 $COQ "Gen_{}.v" >"$W/Gen_{}.log" 2>&1 || echo "coqc failed" >>"$W/Gen_{}.log"'
for m in g0 $REALPKGS; do
  if [ ! -f "$W/gen/Gen_$m.vo" ] || [ -s "$W/Gen_$m.log" ]; then head -30 "$W/Gen_$m.log"; fail "generated Gen_$m.v does not compile"; fi
done

note "running the Go side (N=$N, SEED=$SEED)"
(cd "$T" && go build -p 4 -o "$W/harness" ./cmd/harness) || { echo "FAIL build harness"; exit 1; }
: >"$W/jobs"
for m in g0 $REALPKGS; do
  mkdir -p "$W/chk/$m"
  groups=1; [ "$m" = g0 ] && groups=32   # small files: each stays far below the coqc timeout
  "$W/harness" -pkg "$m" -dir "$W/chk/$m" -req "From T Require Import Gen_$m." -seed "$SEED" -n "$N" -groups "$groups" || { fail "harness $m"; continue; }
  for f in "$W/chk/$m"/Check_*.v; do echo "$f" >>"$W/jobs"; done
done

note "running the Coq side ($(wc -l <"$W/jobs") files, $JOBS jobs)"
export COQ
xargs -P "$JOBS" -I{} sh -c 'cd "$(dirname {})" && timeout 300 $COQ "$(basename {})" > {}.log 2>&1 || echo "coqc failed or timed out (exit $?)" >> {}.log' <"$W/jobs"

total=0
for m in g0 $REALPKGS; do
  [ -f "$W/chk/$m/checks.txt" ] || continue
  while read -r fn file cases panics; do
    log="$W/chk/$m/$file.log"
    line="$(grep -A1 "^RESULT_$fn = " "$log" 2>/dev/null | tr -d '\n')"
    if echo "$line" | grep -q "^RESULT_$fn = (${cases}%nat, \[\]) *: nat \* list nat"; then
      echo "OK $m.$fn $cases points ($panics panicking)"
      total=$((total + 1))
      [ "$cases" -ge 2000 ] || [ "$N" -lt 2000 ] || fail "$m.$fn: only $cases points"
    else
      if [ -n "$line" ]; then
        fail "$m.$fn: Go and generated Gallina DISAGREE (cases, first mismatching indices): $line"
      else
        fail "$m.$fn: check did not complete: $(grep -h "coqc failed\|Error" "$log" | head -2 | tr '\n' ' ')"
      fi
    fi
  done <"$W/chk/$m/checks.txt"
done
note "$total functions validated"

# ------------------------------------------------------------------ 4. rejections, example proof
note "rejections (every line of testdata/reject/reject.list must be refused)"
"$G" -dir "$T/reject" -reject-list "$T/reject/reject.list" >"$W/reject.log" 2>&1 || fails=$((fails + 1))
cat "$W/reject.log"
[ "$(grep -c '^OK reject' "$W/reject.log")" -ge 50 ] || fail "reject: fewer than 50 rejection cases ran"

note "example proof"
cp "$T/Example_proof.v" "$W/gen/Example_proof.v"
(cd "$W/gen" && timeout 300 $COQ Example_proof.v >"$W/example.log" 2>&1) || { cat "$W/example.log"; fail "Example_proof.v does not compile"; }
if grep -v "Closed under the global context" "$W/example.log" | grep -q .; then
  cat "$W/example.log"; fail "Example_proof.v: unexpected output / axioms"
else
  echo "OK Example_proof.v"
fi

if [ "$fails" -ne 0 ]; then
  echo "selftest: $fails FAILURE(S)"
  exit 1
fi
echo "selftest: all OK"
