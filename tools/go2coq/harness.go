package main

// Generation of the translation-validation harness: a Go file that lives in
// the translated package (so it can call unexported functions), runs every
// translated function on generated arguments and writes, per function, a Coq
// file that checks by vm_compute that the generated Gallina function (and its
// _ok companion) agree with what Go did.

import (
	"bytes"
	"fmt"
	"go/format"
	"go/types"
	"sort"
	"strings"
)

type importSet struct {
	self  *types.Package
	paths map[string]string // path -> name
}

func (is *importSet) qual(p *types.Package) string {
	if p == is.self {
		return ""
	}
	is.paths[p.Path()] = p.Name()
	return p.Name()
}

func descFor(g gty, isNat bool, rng *[2]int64) string {
	has := "false"
	lo, hi := int64(0), int64(0)
	if rng != nil {
		has = "true"
		lo, hi = rng[0], rng[1]
	}
	if isNat {
		return "{Kind: 'n'}"
	}
	switch g.k {
	case kBool:
		return "{Kind: 'b'}"
	case kInt:
		k := "'u'"
		if itySigned(g.ity) {
			k = "'s'"
		}
		return fmt.Sprintf("{Kind: %s, Bits: %s, HasRange: %s, Lo: %d, Hi: %d}", k, g.ity[1:], has, lo, hi)
	default:
		es := "false"
		if itySigned(g.ity) {
			es = "true"
		}
		return fmt.Sprintf("{Kind: 'l', Bits: %s, ElemSigned: %s, HasRange: %s, Lo: %d, Hi: %d}", g.ity[1:], es, has, lo, hi)
	}
}

func intField(g gty) string {
	if itySigned(g.ity) {
		return "I"
	}
	return "U"
}

// oracleLine: the source line of the original oracle call site.
func (t *Translator) oracleLine(s *OracleSite) int {
	for s.Via != nil {
		s = s.Via.oracles[s.ViaIndex]
	}
	return t.ld.Fset.Position(s.Pos).Line
}

func (t *Translator) Harness(module string) ([]byte, error) {
	is := &importSet{self: t.ld.Pkg, paths: map[string]string{}}
	var body bytes.Buffer
	var names []string
	fuel := t.cfg.Harness.Fuel
	if fuel <= 0 {
		fuel = 300
	}
	for _, f := range t.funcs {
		names = append(names, f.CoqName)
		ranges := t.cfg.Harness.Ranges[f.GoName]
		if ranges == nil {
			ranges = t.cfg.Harness.Ranges[f.CoqName]
		}
		fmt.Fprintf(&body, "\nfunc go2coqH_%s(w *bufio.Writer, seed uint64, n int) (int, int) {\n", f.CoqName)
		// descriptors
		fmt.Fprintf(&body, "\tdescs := []go2coqDesc{\n")
		for _, p := range f.Params {
			var r *[2]int64
			if rr, ok := ranges[p.Name]; ok {
				r = &rr
			}
			fmt.Fprintf(&body, "\t\t%s, // %s\n", descFor(p.Ty, p.IsNat, r), p.Name)
		}
		fmt.Fprintf(&body, "\t}\n")
		// chk definition: one case is the tuple (args..., expected ok, expected value)
		var args strings.Builder
		var pats, ctys []string
		for _, p := range f.Params {
			ty := p.Ty.coq()
			if p.IsNat {
				ty = "nat"
			}
			pats = append(pats, "a_"+p.Name)
			ctys = append(ctys, ty)
			fmt.Fprintf(&args, " a_%s", p.Name)
		}
		pats = append(pats, "g2c_eok", "g2c_e")
		ctys = append(ctys, "bool", f.valueType())
		var resNames, expNames, eqs []string
		for i, r := range f.Results {
			rn, en := fmt.Sprintf("r%d", i), fmt.Sprintf("e%d", i)
			resNames = append(resNames, rn)
			expNames = append(expNames, en)
			switch r.Ty.k {
			case kInt:
				eqs = append(eqs, "(Z.eqb "+rn+" "+en+")")
			case kBool:
				eqs = append(eqs, "(Bool.eqb "+rn+" "+en+")")
			default:
				eqs = append(eqs, "(list_eqb "+rn+" "+en+")")
			}
		}
		eqAll := andAll(eqs)
		destr := func(names []string, term string) string {
			if len(names) == 1 {
				return "let " + names[0] + " := " + term + " in "
			}
			return "let '" + tupleTerm(names) + " := " + term + " in "
		}
		var eq string
		if f.fuelled {
			eq = "match " + f.CoqName + args.String() + " with None => false | Some g2c_v => " + destr(resNames, "g2c_v") + destr(expNames, "g2c_e") + eqAll + " end"
		} else {
			eq = destr(resNames, "("+f.CoqName+args.String()+")") + destr(expNames, "g2c_e") + eqAll
		}
		caseTy := tupleType(ctys)
		chk := fmt.Sprintf("Definition g2c_chk (g2c_c : %s) : bool :=\n  let '%s := g2c_c in\n  if g2c_eok then andb (%s%s) (%s)\n  else negb (%s%s).\n",
			caseTy, tupleTerm(pats), f.OkName, args.String(), eq, f.OkName, args.String())
		fmt.Fprintf(&body, "\tck := go2coqOpen(w, %q, %q, %q)\n", f.CoqName, caseTy, chk)
		fmt.Fprintf(&body, "\tplan := go2coqNewPlan(descs, n, %d)\n\trng := go2coqNewRng(seed, %q)\n", fuel, f.CoqName)
		fmt.Fprintf(&body, "\tfor i := 0; i < n; i++ {\n\t\tvals := plan.Case(rng, i)\n")

		// oracle duplicates share a value
		var oLines []int
		var oIdx []int
		for i, p := range f.Params {
			if p.Kind == PKOracle {
				line := t.oracleLine(p.Oracle)
				for k, l := range oLines {
					if l == line {
						fmt.Fprintf(&body, "\t\tvals[%d] = vals[%d]\n", i, oIdx[k])
					}
				}
				oLines = append(oLines, line)
				oIdx = append(oIdx, i)
			}
		}
		// arguments
		var callArgs []string
		var fieldSets []string
		for i, p := range f.Params {
			v := fmt.Sprintf("vals[%d]", i)
			switch p.Kind {
			case PKFuel, PKOracle:
				continue
			case PKAbstract:
				if p.AbsMake == "" {
					return nil, fmt.Errorf("harness: abstract parameter %s of %s needs \"make\" in the config", p.GoName, f.GoName)
				}
				var absT types.Type
				for _, ap := range f.abstract {
					if ap.obj == p.obj {
						absT = ap.goT
					}
				}
				callArgs = append(callArgs, fmt.Sprintf("%s(%s(%s.%s))", p.AbsMake, types.TypeString(absT, is.qual), v, intField(p.Ty)))
			case PKField:
				ts := types.TypeString(p.goT, is.qual)
				if p.Ty.k == kBool {
					fieldSets = append(fieldSets, fmt.Sprintf("recv.%s = %s(%s.B)", p.GoName, ts, v))
				} else {
					fieldSets = append(fieldSets, fmt.Sprintf("recv.%s = %s(%s.%s)", p.GoName, ts, v, intField(p.Ty)))
				}
			case PKParam:
				ts := types.TypeString(p.goT, is.qual)
				switch p.Ty.k {
				case kBool:
					callArgs = append(callArgs, fmt.Sprintf("%s(%s.B)", ts, v))
				case kInt:
					callArgs = append(callArgs, fmt.Sprintf("%s(%s.%s)", ts, v, intField(p.Ty)))
				default:
					switch u := p.goT.Underlying().(type) {
					case *types.Basic:
						callArgs = append(callArgs, fmt.Sprintf("%s(go2coqBytes(%s))", ts, v))
					case *types.Slice:
						et := types.TypeString(u.Elem(), is.qual)
						an := fmt.Sprintf("arg%d", i)
						fmt.Fprintf(&body, "\t\t%s := make([]%s, 0, len(%s.L))\n\t\tfor _, e := range %s.L {\n\t\t\t%s = append(%s, %s(e.%s))\n\t\t}\n",
							an, et, v, v, an, an, et, intField(p.Ty))
						callArgs = append(callArgs, fmt.Sprintf("%s(%s)", ts, an))
					default:
						return nil, fmt.Errorf("harness: parameter %s of %s has array type: not supported by the harness", p.GoName, f.GoName)
					}
				}
			}
		}
		// receiver
		callee := f.decl.Name.Name
		if f.recv != nil {
			rt := f.recv.Type()
			if pt, ok := rt.(*types.Pointer); ok {
				rt = pt.Elem()
			}
			fmt.Fprintf(&body, "\t\tvar recv %s\n", types.TypeString(rt, is.qual))
			for _, fs := range fieldSets {
				fmt.Fprintf(&body, "\t\t%s\n", fs)
			}
			callee = "recv." + callee
		}
		if len(oLines) > 0 {
			if t.cfg.Harness.OracleHook == "" {
				return nil, fmt.Errorf("harness: %s uses oracles; config harness.oracle_hook is required", f.GoName)
			}
			fmt.Fprintf(&body, "\t\t%s([]int{", t.cfg.Harness.OracleHook)
			for _, l := range oLines {
				fmt.Fprintf(&body, "%d, ", l)
			}
			fmt.Fprintf(&body, "}, []int64{")
			for k, i := range oIdx {
				_ = k
				p := f.Params[i]
				if itySigned(p.Ty.ity) {
					fmt.Fprintf(&body, "vals[%d].I, ", i)
				} else {
					fmt.Fprintf(&body, "int64(vals[%d].U), ", i)
				}
			}
			fmt.Fprintf(&body, "})\n")
		}
		// results
		nres := f.sig.Results().Len()
		var rvars []string
		for i := 0; i < nres; i++ {
			rv := fmt.Sprintf("res%d", i)
			rvars = append(rvars, rv)
			fmt.Fprintf(&body, "\t\tvar %s %s\n", rv, types.TypeString(f.sig.Results().At(i).Type(), is.qual))
		}
		fmt.Fprintf(&body, "\t\tpanicked := func() (p bool) {\n\t\t\tdefer func() {\n\t\t\t\tif recover() != nil {\n\t\t\t\t\tp = true\n\t\t\t\t}\n\t\t\t}()\n\t\t\t")
		if nres > 0 {
			fmt.Fprintf(&body, "%s = ", strings.Join(rvars, ", "))
		}
		fmt.Fprintf(&body, "%s(%s)\n\t\t\treturn false\n\t\t}()\n", callee, strings.Join(callArgs, ", "))
		// expected literal
		var lits []string
		for i, r := range f.Results {
			var e string
			if r.Kind == "field" {
				e = "recv." + r.GoName
			} else {
				e = rvars[i]
			}
			switch r.Ty.k {
			case kBool:
				lits = append(lits, fmt.Sprintf("go2coqLitB(bool(%s))", e))
			case kInt:
				if itySigned(r.Ty.ity) {
					lits = append(lits, fmt.Sprintf("go2coqLitS(int64(%s))", e))
				} else {
					lits = append(lits, fmt.Sprintf("go2coqLitU(uint64(%s))", e))
				}
			default:
				switch u := r.goT.Underlying().(type) {
				case *types.Basic:
					lits = append(lits, fmt.Sprintf("go2coqLitBytes([]byte(%s))", e))
				case *types.Slice:
					_ = u
					conv := "uint64"
					fn := "go2coqLitU"
					if itySigned(r.Ty.ity) {
						conv, fn = "int64", "go2coqLitS"
					}
					ln := fmt.Sprintf("lit%d", i)
					fmt.Fprintf(&body, "\t\t%s := []string{}\n\t\tfor _, e := range %s {\n\t\t\t%s = append(%s, %s(%s(e)))\n\t\t}\n", ln, e, ln, ln, fn, conv)
					lits = append(lits, fmt.Sprintf("\"[\" + strings.Join(%s, \"; \") + \"]\"", ln))
				default:
					return nil, fmt.Errorf("harness: result of %s has array type: not supported by the harness", f.GoName)
				}
			}
		}
		var expLit string
		if len(lits) == 1 {
			expLit = lits[0]
		} else {
			expLit = "\"(\" + " + strings.Join(lits, " + \", \" + ") + " + \")\""
		}
		fmt.Fprintf(&body, "\t\tck.Case(go2coqArgs(descs, vals), !panicked, %s)\n", expLit)
		fmt.Fprintf(&body, "\t}\n\treturn ck.Close()\n}\n")
	}

	var out bytes.Buffer
	fmt.Fprintf(&out, "// Code generated by go2coq -harness for Coq module %s. DO NOT EDIT.\n\npackage %s\n\nimport (\n", module, t.ld.Pkg.Name())
	std := []string{"bufio", "fmt", "os", "path/filepath", "strings"}
	paths := make([]string, 0, len(is.paths))
	for p := range is.paths {
		paths = append(paths, p)
	}
	sort.Strings(paths)
	seen := map[string]bool{}
	for _, s := range std {
		fmt.Fprintf(&out, "\t%q\n", s)
		seen[s] = true
	}
	for _, p := range paths {
		if !seen[p] {
			fmt.Fprintf(&out, "\t%s %q\n", is.paths[p], p)
		}
	}
	fmt.Fprintf(&out, ")\n\nvar _ = strings.Join\n\n")
	fmt.Fprintf(&out, "// Go2coqHarness runs every translated function on n generated argument tuples and\n// writes the Coq check files <dir>/Check_<k>.v (k < groups; function i goes to\n// file i %% groups) plus <dir>/checks.txt with one line\n// \"<F> <file> <cases> <panicking cases>\" per function.  Compiling Check_<k>.v\n// prints one line \"RESULT_<F> = (<cases>%%nat, [])\" per function; a non-empty list\n// holds the indices of the first mismatching cases.\n")
	fmt.Fprintf(&out, "func Go2coqHarness(dir, req string, seed uint64, n int, groups int) error {\n\tif groups < 1 {\n\t\tgroups = 1\n\t}\n")
	fmt.Fprintf(&out, "\tfs, err := go2coqFiles(dir, req, groups)\n\tif err != nil {\n\t\treturn err\n\t}\n\tvar idx strings.Builder\n\tk := 0\n")
	for _, n := range names {
		fmt.Fprintf(&out, "\t{\n\t\tc, p := go2coqH_%s(fs[k%%groups].w, seed, n)\n\t\tfmt.Fprintf(&idx, \"%s Check_%%d.v %%d %%d\\n\", k%%groups, c, p)\n\t\tk++\n\t}\n", n, n)
	}
	fmt.Fprintf(&out, "\tfor _, f := range fs {\n\t\tif err := f.close(); err != nil {\n\t\t\treturn err\n\t\t}\n\t}\n")
	fmt.Fprintf(&out, "\treturn os.WriteFile(filepath.Join(dir, \"checks.txt\"), []byte(idx.String()), 0o644)\n}\n")
	out.Write(body.Bytes())
	out.WriteString(harnessRuntime)
	src, err := format.Source(out.Bytes())
	if err != nil {
		return out.Bytes(), fmt.Errorf("internal: generated harness does not parse: %v", err)
	}
	return src, nil
}

const harnessRuntime = `
// ---- runtime shared by all harness functions ----

type go2coqDesc struct {
	Kind       byte // 's' signed, 'u' unsigned, 'b' bool, 'l' list, 'n' nat fuel
	Bits       uint
	ElemSigned bool
	HasRange   bool
	Lo, Hi     int64 // value range for integers, length range for lists
}

type go2coqVal struct {
	I int64
	U uint64
	B bool
	L []go2coqVal
}

type go2coqRngT struct{ s uint64 }

func go2coqNewRng(seed uint64, name string) *go2coqRngT {
	h := seed*0x9E3779B97F4A7C15 + 0x1234567
	for _, c := range []byte(name) {
		h = (h ^ uint64(c)) * 0x100000001B3
	}
	return &go2coqRngT{h}
}

func (r *go2coqRngT) next() uint64 {
	r.s += 0x9E3779B97F4A7C15
	z := r.s
	z = (z ^ (z >> 30)) * 0xBF58476D1CE4E5B9
	z = (z ^ (z >> 27)) * 0x94D049BB133111EB
	return z ^ (z >> 31)
}

func (r *go2coqRngT) intn(n uint64) uint64 {
	if n == 0 {
		return 0
	}
	return r.next() % n
}

func go2coqBounds(d go2coqDesc) (slo, shi int64, ulo, uhi uint64) {
	if d.Kind == 's' {
		slo, shi = -(int64(1) << (d.Bits - 1)), int64(1)<<(d.Bits-1)-1
		if d.HasRange {
			slo, shi = d.Lo, d.Hi
		}
		return
	}
	ulo, uhi = 0, ^uint64(0)>>(64-d.Bits)
	if d.HasRange {
		ulo, uhi = uint64(d.Lo), uint64(d.Hi)
	}
	return
}

// boundary values of an integer descriptor; small=true gives the reduced set
// used for the cross product phase.
func go2coqBoundary(d go2coqDesc, small bool) []go2coqVal {
	var out []go2coqVal
	seenS := map[int64]bool{}
	seenU := map[uint64]bool{}
	slo, shi, ulo, uhi := go2coqBounds(d)
	if d.Kind == 's' {
		add := func(v int64) {
			if v >= slo && v <= shi && !seenS[v] {
				seenS[v] = true
				out = append(out, go2coqVal{I: v})
			}
		}
		add(slo)
		add(shi)
		add(0)
		add(-1)
		add(1)
		if small {
			add(int64(1) << (d.Bits / 2))
			return out
		}
		add(slo + 1)
		add(shi - 1)
		add(2)
		add(-2)
		for _, k := range []uint{3, 7, 8, 15, 16, 31, 32, 62} {
			if k < d.Bits-1 || (k < 63 && d.HasRange) {
				p := int64(1) << k
				add(p - 1)
				add(p)
				add(p + 1)
				add(-p - 1)
				add(-p)
				add(-p + 1)
			}
		}
		return out
	}
	add := func(v uint64) {
		if v >= ulo && v <= uhi && !seenU[v] {
			seenU[v] = true
			out = append(out, go2coqVal{U: v})
		}
	}
	add(ulo)
	add(uhi)
	add(0)
	add(1)
	if small {
		add(uint64(1) << (d.Bits - 1))
		add(uint64(1) << (d.Bits / 2))
		return out
	}
	add(ulo + 1)
	add(uhi - 1)
	add(2)
	for _, k := range []uint{3, 7, 8, 15, 16, 31, 32, 63} {
		if k < d.Bits {
			p := uint64(1) << k
			add(p - 1)
			add(p)
			add(p + 1)
		}
	}
	return out
}

func go2coqRandInt(r *go2coqRngT, d go2coqDesc) go2coqVal {
	slo, shi, ulo, uhi := go2coqBounds(d)
	if d.Kind == 's' {
		if d.HasRange {
			span := uint64(shi-slo) + 1
			switch r.intn(4) {
			case 0:
				k := r.intn(8)
				off := r.next() & (uint64(1)<<k - 1)
				if span != 0 {
					off %= span
				}
				return go2coqVal{I: slo + int64(off)}
			case 1:
				k := r.intn(8)
				off := r.next() & (uint64(1)<<k - 1)
				if span != 0 {
					off %= span
				}
				return go2coqVal{I: shi - int64(off)}
			}
			if span == 0 {
				return go2coqVal{I: int64(r.next())}
			}
			return go2coqVal{I: slo + int64(r.intn(span))}
		}
		if r.intn(8) == 0 {
			v := int64(r.next()) >> (64 - d.Bits)
			return go2coqVal{I: v}
		}
		k := r.intn(uint64(d.Bits)) // 0..bits-1 magnitude bits
		m := int64(r.next() & (uint64(1)<<k - 1))
		if k > 0 && r.intn(2) == 0 {
			m |= int64(1) << (k - 1)
		}
		if r.intn(2) == 0 {
			m = -m - 1
		}
		return go2coqVal{I: m}
	}
	if d.HasRange {
		span := uhi - ulo + 1
		switch r.intn(4) {
		case 0:
			k := r.intn(8)
			off := r.next() & (uint64(1)<<k - 1)
			if span != 0 {
				off %= span
			}
			return go2coqVal{U: ulo + off}
		case 1:
			k := r.intn(8)
			off := r.next() & (uint64(1)<<k - 1)
			if span != 0 {
				off %= span
			}
			return go2coqVal{U: uhi - off}
		}
		if span == 0 {
			return go2coqVal{U: r.next()}
		}
		return go2coqVal{U: ulo + r.intn(span)}
	}
	if r.intn(8) == 0 {
		return go2coqVal{U: r.next() >> (64 - d.Bits)}
	}
	k := r.intn(uint64(d.Bits) + 1) // 0..bits
	var m uint64
	if k == 64 {
		m = r.next()
	} else {
		m = r.next() & (uint64(1)<<k - 1)
	}
	if k > 0 && r.intn(2) == 0 {
		m |= uint64(1) << (k - 1)
	}
	return go2coqVal{U: m}
}

func go2coqElemDesc(d go2coqDesc) go2coqDesc {
	k := byte('u')
	if d.ElemSigned {
		k = 's'
	}
	return go2coqDesc{Kind: k, Bits: d.Bits}
}

func go2coqRandList(r *go2coqRngT, d go2coqDesc, n int) go2coqVal {
	ed := go2coqElemDesc(d)
	bs := go2coqBoundary(ed, false)
	v := go2coqVal{L: make([]go2coqVal, 0, n)}
	for i := 0; i < n; i++ {
		if r.intn(10) < 3 {
			v.L = append(v.L, bs[r.intn(uint64(len(bs)))])
		} else {
			v.L = append(v.L, go2coqRandInt(r, ed))
		}
	}
	return v
}

func go2coqRandLen(r *go2coqRngT, d go2coqDesc) int {
	if d.HasRange {
		return int(d.Lo) + int(r.intn(uint64(d.Hi-d.Lo)+1))
	}
	switch x := r.intn(10); {
	case x == 0:
		return 0
	case x == 1:
		return 1
	case x < 6:
		return 2 + int(r.intn(7))
	default:
		return 9 + int(r.intn(32))
	}
}

type go2coqPlan struct {
	descs []go2coqDesc
	small [][]go2coqVal
	full  [][]go2coqVal
	cross int
	sweep int
	fuel  int
}

func go2coqNewPlan(descs []go2coqDesc, n int, fuel int) *go2coqPlan {
	p := &go2coqPlan{descs: descs, fuel: fuel}
	r := go2coqNewRng(99, "plan")
	total := 1
	for _, d := range descs {
		var s, f []go2coqVal
		switch d.Kind {
		case 's', 'u':
			s, f = go2coqBoundary(d, true), go2coqBoundary(d, false)
		case 'b':
			s = []go2coqVal{{B: false}, {B: true}}
			f = s
		case 'l':
			lo, hi := 0, 3
			if d.HasRange {
				lo, hi = int(d.Lo), int(d.Hi)
				if hi > lo+3 {
					hi = lo + 3
				}
			}
			for n := lo; n <= hi; n++ {
				s = append(s, go2coqRandList(r, d, n))
			}
			f = s
		case 'n':
			s = []go2coqVal{{I: int64(fuel)}}
			f = s
		}
		p.small = append(p.small, s)
		p.full = append(p.full, f)
		if total <= n {
			total *= len(s)
		}
	}
	if total <= n/3 {
		p.cross = total
	}
	for _, f := range p.full {
		p.sweep += len(f)
	}
	if p.cross+p.sweep > n*2/3 {
		p.sweep = 0
	}
	return p
}

func (p *go2coqPlan) random(r *go2coqRngT, j int) go2coqVal {
	d := p.descs[j]
	switch d.Kind {
	case 's', 'u':
		if r.intn(100) < 35 {
			return p.full[j][r.intn(uint64(len(p.full[j])))]
		}
		return go2coqRandInt(r, d)
	case 'b':
		return go2coqVal{B: r.intn(2) == 0}
	case 'l':
		return go2coqRandList(r, d, go2coqRandLen(r, d))
	}
	return go2coqVal{I: int64(p.fuel)}
}

func (p *go2coqPlan) Case(r *go2coqRngT, i int) []go2coqVal {
	vals := make([]go2coqVal, len(p.descs))
	switch {
	case i < p.cross:
		k := i
		for j := range p.descs {
			vals[j] = p.small[j][k%len(p.small[j])]
			k /= len(p.small[j])
		}
	case i < p.cross+p.sweep:
		k := i - p.cross
		for j := range p.descs {
			vals[j] = p.random(r, j)
		}
		for j := range p.descs {
			if k < len(p.full[j]) {
				vals[j] = p.full[j][k]
				break
			}
			k -= len(p.full[j])
		}
	default:
		for j := range p.descs {
			vals[j] = p.random(r, j)
		}
	}
	return vals
}

func go2coqBytes(v go2coqVal) []byte {
	out := make([]byte, len(v.L))
	for i, e := range v.L {
		out[i] = byte(e.U)
	}
	return out
}

func go2coqLitS(v int64) string {
	if v < 0 {
		return fmt.Sprintf("(%d)", v)
	}
	return fmt.Sprintf("%d", v)
}

func go2coqLitU(v uint64) string { return fmt.Sprintf("%d", v) }

func go2coqLitB(b bool) string {
	if b {
		return "true"
	}
	return "false"
}

func go2coqLitBytes(bs []byte) string {
	parts := make([]string, len(bs))
	for i, b := range bs {
		parts[i] = fmt.Sprintf("%d", b)
	}
	return "[" + strings.Join(parts, "; ") + "]"
}

func go2coqArg(d go2coqDesc, v go2coqVal) string {
	switch d.Kind {
	case 's':
		return go2coqLitS(v.I)
	case 'u':
		return go2coqLitU(v.U)
	case 'b':
		return go2coqLitB(v.B)
	case 'n':
		return fmt.Sprintf("%d%%nat", v.I)
	}
	parts := make([]string, len(v.L))
	ed := go2coqElemDesc(d)
	for i, e := range v.L {
		parts[i] = go2coqArg(ed, e)
	}
	return "[" + strings.Join(parts, "; ") + "]"
}

func go2coqArgs(descs []go2coqDesc, vals []go2coqVal) string {
	parts := make([]string, len(descs))
	for i := range descs {
		parts[i] = go2coqArg(descs[i], vals[i])
	}
	return strings.Join(parts, ", ")
}

type go2coqFile struct {
	f *os.File
	w *bufio.Writer
}

func (f *go2coqFile) close() error {
	if err := f.w.Flush(); err != nil {
		return err
	}
	return f.f.Close()
}

func go2coqFiles(dir, req string, groups int) ([]*go2coqFile, error) {
	var out []*go2coqFile
	for k := 0; k < groups; k++ {
		f, err := os.Create(filepath.Join(dir, fmt.Sprintf("Check_%d.v", k)))
		if err != nil {
			return nil, err
		}
		g := &go2coqFile{f: f, w: bufio.NewWriter(f)}
		fmt.Fprintf(g.w, "From Coq Require Import ZArith Bool List.\nFrom V Require Import lib.GoInt.\n%s\nImport ListNotations.\nOpen Scope Z_scope.\n\n", req)
		fmt.Fprintf(g.w, "Fixpoint g2c_bad (i : nat) (l : list bool) : list nat :=\n  match l with nil => nil | b :: l' => if b then g2c_bad (S i) l' else i :: g2c_bad (S i) l' end.\n")
		out = append(out, g)
	}
	return out, nil
}

type go2coqCheck struct {
	w      *bufio.Writer
	name   string
	caseTy string
	n      int
	panics int
	chunks int
	open   bool
}

func go2coqOpen(w *bufio.Writer, name, caseTy, chk string) *go2coqCheck {
	c := &go2coqCheck{w: w, name: name, caseTy: caseTy}
	fmt.Fprintf(w, "\nModule G2C_%s.\n%s", name, chk)
	return c
}

func (c *go2coqCheck) Case(args string, ok bool, exp string) {
	if c.n%50 == 0 {
		if c.open {
			fmt.Fprintf(c.w, "\n].\n")
		}
		fmt.Fprintf(c.w, "Definition g2c_c%d : list %s := [\n", c.chunks, c.caseTy)
		c.chunks++
		c.open = true
	} else {
		fmt.Fprintf(c.w, ";\n")
	}
	if !ok {
		c.panics++
	}
	if args != "" {
		args += ", "
	}
	fmt.Fprintf(c.w, "(%s%s, %s)", args, go2coqLitB(ok), exp)
	c.n++
}

func (c *go2coqCheck) Close() (int, int) {
	if c.open {
		fmt.Fprintf(c.w, "\n].\n")
	}
	fmt.Fprintf(c.w, "Definition g2c_results : list bool := map g2c_chk (")
	for i := 0; i < c.chunks; i++ {
		fmt.Fprintf(c.w, "g2c_c%d ++ ", i)
	}
	fmt.Fprintf(c.w, "[]).\n")
	fmt.Fprintf(c.w, "End G2C_%s.\n", c.name)
	fmt.Fprintf(c.w, "(* number of cases, indices of the first mismatching cases (must be []) *)\n")
	fmt.Fprintf(c.w, "Definition RESULT_%s := Eval vm_compute in (length G2C_%s.g2c_results, firstn 20 (g2c_bad O G2C_%s.g2c_results)).\n", c.name, c.name, c.name)
	fmt.Fprintf(c.w, "Print RESULT_%s.\n", c.name)
	return c.n, c.panics
}
`
