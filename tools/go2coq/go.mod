module verif/tools/go2coq

go 1.25.7
