// Package g0 holds small functions that together cover the G0 subset accepted
// by go2coq.  selftest.sh translates every function listed in g0.funcs, runs
// the Go function and the generated Gallina on the same >= 2000 arguments and
// requires identical results (and identical panic / _ok behaviour).
package g0

import (
	"math/bits"
	"os"
	"time"

	"go2coqtest/stubs/rand"
)

// ---------------------------------------------------------------- widths, wrap-around

func AddI8(a, b int8) int8      { return a + b }
func SubU8(a, b uint8) uint8    { return a - b }
func MulI16(a, b int16) int16   { return a * b }
func MulU16(a, b uint16) uint16 { return a * b }
func AddI32(a, b int32) int32   { return a + b }
func MulU32(a, b uint32) uint32 { return a * b }
func MulI64(a, b int64) int64   { return a * b }
func SubU64(a, b uint64) uint64 { return a - b }
func AddInt(a, b int) int       { return a + b }
func AddUint(a, b uint) uint    { return a + b }
func NegI8(a int8) int8         { return -a }
func NegU16(a uint16) uint16    { return -a }
func NotI32(a int32) int32      { return ^a }
func NotU8(a uint8) uint8       { return ^a }
func PlusI16(a int16) int16     { return +a - 1 }
func MixedArith(a int8, b uint16, c int64) int64 {
	return int64(a)*int64(b) - c*3 + int64(int8(b))
}

// ---------------------------------------------------------------- division, remainder

func DivI8(a, b int8) int8       { return a / b }
func ModI8(a, b int8) int8       { return a % b }
func DivI64(a, b int64) int64    { return a / b }
func ModI64(a, b int64) int64    { return a % b }
func DivU32(a, b uint32) uint32  { return a / b }
func ModU32(a, b uint32) uint32  { return a % b }
func DivConst(a int32) int32     { return a / -7 }
func ModConst(a int64) int64     { return a % 10 }
func DivAssign(a, b int16) int16 { a /= b; a %= 7; return a }

// ---------------------------------------------------------------- bitwise

func BitsI16(a, b int16) int16     { return (a&b | a ^ b) &^ (b >> 1) }
func AndNotU32(a, b uint32) uint32 { return a &^ b }
func XorI64(a, b int64) int64      { return a ^ b }
func OrAssign(a uint8, b uint8) uint8 {
	a |= b
	a &= 0xF3
	a ^= b >> 2
	a &^= 1
	return a
}

// Precedence: & and >> bind equally and associate to the left in Go.
func Prec(x uint32) uint32 { return x&0xC00000>>12 | x&0x1FF<<2 }

// ---------------------------------------------------------------- shifts

func ShlU8(a uint8, n uint) uint8        { return a << n }
func ShlI8(a int8, n uint8) int8         { return a << n }
func ShrI8(a int8, n uint8) int8         { return a >> n }
func ShrU64(a uint64, n uint64) uint64   { return a >> n }
func ShlI64Signed(a int64, n int) int64  { return a << n }
func ShrI32Signed(a int32, n int8) int32 { return a >> n }
func ShlConstBig(a uint16) uint16        { return a << 20 }
func ShrConstBig(a int16) int16          { return a >> 40 }
func Rotate(x uint32, n uint8) uint32    { return x<<(n&31) | x>>(32-(n&31)) }
func OneShl(n uint) int64                { return 1 << n }
func ShlAssign(a int32, n uint16) int32  { a <<= n; a >>= 1; return a }
func ShiftNegConstCount(a int64) int64   { return a >> 63 }

// ---------------------------------------------------------------- conversions

func ConvI64toU8(a int64) uint8              { return uint8(a) }
func ConvU64toI64(a uint64) int64            { return int64(a) }
func ConvI8toU64(a int8) uint64              { return uint64(a) }
func ConvI32toU16toI8(a int32) int8          { return int8(uint16(a)) }
func ConvChain(a int64) int                  { return int(int16(uint32(a) >> 3)) }
func ConvNamed(d time.Duration) os.FileMode  { return os.FileMode(d) }
func ConvUintptr(a uintptr, b int32) uintptr { return a + uintptr(b) }
func RuneByte(r rune, b byte) rune           { return r + rune(b) }
func DurationMath(d time.Duration) time.Duration {
	return d/time.Millisecond*time.Millisecond + 3*time.Second
}

// ---------------------------------------------------------------- comparisons, booleans, short circuit

func Cmp(a, b int32) bool                { return a < b && b <= 100 || a == b }
func CmpU(a, b uint64) bool              { return a >= b != (a > b) }
func BoolOps(p, q bool, a uint8) bool    { return (p != q) == (a > 7) || !p }
func ShortCircuitDiv(a, b int) bool      { return b != 0 && a/b > 2 }
func ShortCircuitOr(a, b int) bool       { return b == 0 || a%b == 0 }
func ShortCircuitNest(a, b, c int8) bool { return a != 0 && (b/a > 1 || c != 0 && b%c == 1) }
func EagerDiv(a, b int) bool             { return a/b > 2 && b != 0 }

// ---------------------------------------------------------------- if / early return / scoping

func Clamp(x, lo, hi int32) int32 {
	if x < lo {
		return lo
	}
	if x > hi {
		return hi
	}
	return x
}

func Sign(x int64) int {
	if x < 0 {
		return -1
	} else if x == 0 {
		return 0
	} else {
		return 1
	}
}

func EarlyNested(a, b int16) int16 {
	r := a
	if a > 10 {
		r += b
		if b < 0 {
			return r
		}
		r *= 2
	} else if a < -10 {
		if b == 0 {
			r = -r
		} else {
			return b
		}
	}
	if r > 100 {
		r -= 100
	}
	return r + 1
}

func IfInit(a int8) int8 {
	if b := a * 2; b > 10 {
		return b
	} else if c := b + 1; c < 0 {
		return c
	}
	return a
}

func Shadow(a int) int {
	x := a
	{
		x := x + 1
		if x > 5 {
			return x
		}
	}
	return x
}

func ShadowAfterBlock(a int) int {
	x := 1
	if a > 0 {
		x := 2
		a += x
	}
	if a > 5 {
		x := a * 3
		a = x
	}
	return a + x
}

func VarDecls(a int16) int16 {
	var x, y int16 = a, 3
	var z int16
	var (
		p    = x + 1
		q, w = y, p
	)
	const k = 5
	z = x*y + k
	return z + q + w
}

// ---------------------------------------------------------------- switch

func SwitchTag(x uint8) int {
	switch x {
	case 1, 2, 3:
		return 10
	case 4:
		return 20
	default:
		return 30
	}
}

func SwitchNoTag(x int) int {
	switch {
	case x < 0:
		return -1
	case x == 0:
		return 0
	}
	return 1
}

func SwitchDefaultFirst(x int8) int8 {
	switch x {
	default:
		return 0
	case 5:
		return 1
	case 7:
		x++
	}
	return x
}

func SwitchBreak(x, y int) int {
	r := 0
	switch {
	case x > 0:
		if y > 0 {
			r = 1
			break
		}
		r = 2
	case x < 0:
		r = 3
	}
	return r + 10
}

func SwitchInit(x int) int {
	switch y := x * 2; y {
	case 4:
		return 1
	case 6, x:
		return 2
	}
	return 3
}

// Case expressions are evaluated lazily, top to bottom, left to right.
func SwitchCaseExprDiv(x, y int) int {
	switch {
	case y != 0 && x/y == 2:
		return 1
	case x/(y+1) == 3, x%(y-2) == 1:
		return 2
	}
	return 0
}

func SwitchTagDiv(x, y, z int8) int8 {
	switch x / y {
	case 1:
		return 1
	case 2, 100 / z:
		return 2
	}
	return 0
}

func SwitchBool(p bool) int {
	switch p {
	case true:
		return 1
	}
	return 0
}

func SwitchInLoop(n int) int {
	s := 0
	for i := 0; i < n; i++ {
		switch i % 4 {
		case 0:
			continue
		case 1:
			break
		case 2:
			s += 100
			if s > 1000 {
				return s
			}
		default:
			s++
		}
		s += 2
	}
	return s
}

// ---------------------------------------------------------------- loops

func SumTo(n int) int {
	s := 0
	for i := 0; i < n; i++ {
		s += i
	}
	return s
}

func SumToIncl(n uint8) uint8 {
	var s uint8
	for i := uint8(0); i <= n; i++ {
		s += i
	}
	return s
}

func CountDown(n int) int {
	s := 0
	for i := n; i > 0; i-- {
		s += i * i
	}
	return s
}

func CountDownIncl(n int8) int {
	s := 0
	for i := n; i >= -3; i-- {
		s++
	}
	return s
}

func LoopBreak(n, k int) int {
	s := 0
	for i := 0; i < n; i++ {
		if i == k {
			break
		}
		s += i
	}
	return s
}

func LoopContinue(n int) int {
	s := 0
	for i := 0; i < n; i++ {
		if i%3 == 0 {
			continue
		}
		s += i
	}
	return s
}

func LoopReturn(n, k int) int {
	for i := 0; i < n; i++ {
		if i*i > k {
			return i
		}
	}
	return -1
}

func LoopBoundDiv(n, d int) int {
	c := 0
	for i := 0; i < n/d; i++ {
		c++
	}
	return c
}

func LoopBodyDiv(n, d int) int {
	c := 0
	for i := 0; i < n; i++ {
		c += 100 / (d - i)
	}
	return c
}

func NestedLoops(n, m int) int {
	c := 0
	for i := 0; i < n; i++ {
		for j := i; j < m; j++ {
			if j == 7 {
				continue
			}
			if c > 50 {
				break
			}
			c += 1
		}
	}
	return c
}

func NestedReturn(n int) (int, int) {
	for i := 0; i < n; i++ {
		for j := 0; j < n; j++ {
			if i*j == 12 {
				return i, j
			}
		}
	}
	return -1, -1
}

func LoopLocalVar(n int) int {
	acc := 1
	for i := 0; i < n; i++ {
		t := acc * 3
		if t > 1000 {
			t -= 999
		}
		acc = t + i
	}
	return acc
}

func RangeInt(n int) int {
	s := 0
	for i := range n {
		s += i
	}
	return s
}

func RangeIntNoVar(n uint8) int {
	c := 1
	for range n {
		c *= 2
	}
	return c
}

func RangeConst() int {
	s := 0
	for i := range 10 {
		if i == 8 {
			break
		}
		s += i
	}
	return s
}

func RangeTyped(n int16) int16 {
	var last int16 = -1
	for i := range n {
		if i%5 == 4 {
			continue
		}
		last = i
	}
	return last
}

func SumSlice(xs []int32) int32 {
	var s int32
	for _, x := range xs {
		s += x
	}
	return s
}

func IndexSlice(xs []uint16) int {
	m := -1
	for i, x := range xs {
		if x > 1000 {
			m = i
			break
		}
	}
	return m
}

func RangeIdxOnly(xs []int64) int64 {
	var s int64
	for i := range xs {
		s += xs[i] * int64(i)
	}
	return s
}

func RangeNoVars(xs []int8) int {
	c := 0
	for range xs {
		c += 2
	}
	return c
}

func RangeContinue(bs []byte) int {
	c := 0
	for _, b := range bs {
		if b == ' ' {
			continue
		}
		if b == 0 {
			return -1
		}
		c++
	}
	return c
}

func RangeIdxOOB(xs []int64, k int) int64 {
	var s int64
	for i := range xs {
		s += xs[i+k]
	}
	return s
}

func WhileLoop(x uint32) int {
	c := 0
	for x != 0 {
		x &= x - 1
		c++
	}
	return c
}

func Collatz(n uint16) int {
	steps := 0
	x := uint32(n)
	for x > 1 && steps < 50 {
		if x%2 == 0 {
			x /= 2
		} else {
			x = 3*x + 1
		}
		steps++
	}
	return steps
}

func ForEver(n int) int {
	i := 0
	for {
		if i >= n {
			return i
		}
		i += 2
	}
}

func ForEverBreak(n int) int {
	i := 0
	for {
		i += 3
		if i > n {
			break
		}
	}
	return i
}

func GenThreeClause(n int) int {
	s := 0
	for i := 1; i < n; i *= 2 {
		s += i
	}
	return s
}

func LoopModifiesBound(n int) int {
	c := 0
	for i := 0; i < n; i++ {
		n--
		c++
	}
	return c
}

func LoopModifiesIndex(n int) int {
	c := 0
	for i := 0; i < n; i++ {
		if i%2 == 0 {
			i++
		}
		c++
	}
	return c
}

func Gcd(a, b uint32) uint32 {
	for b != 0 {
		a, b = b, a%b
	}
	return a
}

func WhileInFor(n int) int {
	t := 0
	for i := 0; i < n; i++ {
		x := i
		for x > 0 {
			x /= 2
			t++
		}
	}
	return t
}

func Fib(n uint8) uint64 {
	if n < 2 {
		return uint64(n)
	}
	return Fib(n-1) + Fib(n-2)
}

func FactRec(n int) int {
	if n <= 1 {
		return 1
	}
	return n * FactRec(n-1)
}

func CallsFib(n uint8) uint64 { return Fib(n) + 1 }
func UsesLoopFn(n int) int    { return SumTo(n) * 2 }
func UsesWhile(x uint32) bool { return WhileLoop(x) > 3 && x > 5 }
func UsesGcdInLoop(n uint32) uint32 {
	var s uint32
	for i := uint32(1); i < n; i++ {
		s += Gcd(i, n)
	}
	return s
}

// ---------------------------------------------------------------- tuples, named results

func DivMod(a, b int) (q, r int) {
	q = a / b
	r = a % b
	return
}

func Swap(a int8, b uint8) (uint8, int8) { return b, a }

func UseDivMod(a, b int) int {
	q, r := DivMod(a, b)
	return q*10 + r
}

func ReturnCall(a, b int) (int, int) { return DivMod(b, a) }

func TupleAssign(a, b, c int) int {
	a, b, c = b, c, a
	a, b = b-a, a
	return a*100 + b*10 + c
}

func NamedEarly(x int) (r int, ok bool) {
	if x < 0 {
		return
	}
	r = x * 2
	ok = true
	return
}

func NamedOverride(x int8) (r int8) {
	r = x
	if x > 0 {
		return r + 1
	}
	r--
	return
}

func Blank(a, b int) int {
	_, r := DivMod(a, b)
	_ = a / (b - 1)
	return r
}

func BoolResult(a int) (bool, int) { return a > 3, a }

// ---------------------------------------------------------------- oracles

func setOracles(lines []int, vals []int64) { rand.Set(lines, vals) }

func Jitter(base int64) int64 { return base + rand.Int64N(base/10) }

func TwoDraws(a int64) int64 {
	x := rand.Int64N(100)
	if a > 0 {
		x += rand.Int64N(a)
	}
	return x
}

func CallsJitter(b int64) int64 { return Jitter(b) - 2*Jitter(b+10) }

// ---------------------------------------------------------------- receiver fields

type counter struct {
	n     int32
	step  int32
	on    bool
	other string
}

func (c *counter) bump(k int32) int32 {
	if c.on {
		c.n += c.step * k
	} else {
		c.on = true
	}
	return c.n
}

func (c counter) peek(k int32) int32 { return c.n + k }

func (c *counter) reset() {
	if c.n > 10 {
		c.n = 0
		c.on = false
	}
}

func (c *counter) loopBump(k int) {
	for i := 0; i < k; i++ {
		c.n += int32(i)
		c.n++
	}
}

type empty struct{}

func (empty) Const(x int) int { return x + 1 }

var theEmpty empty

func CallsMethod(x int) int { return theEmpty.Const(x) * 2 }

// ---------------------------------------------------------------- abstract parameters

type blob struct {
	data []byte
	tag  int
}

func (b blob) Size() int { return len(b.data) }

func mkBlob(n int) blob { return blob{data: make([]byte, n)} }

func Padded(b blob, align int) int {
	n := b.Size()
	if align <= 0 {
		return n
	}
	return (n + align - 1) / align * align
}

// ---------------------------------------------------------------- tables, package variables, strings

var crcTab = [8]uint32{0x0, 0x77073096, 0xee0e612c, 0x990951ba, 0x076dc419, 0x706af48f, 0xe963a535, 0x9e6495a3}
var primes = []int{2, 3, 5, 7, 11, 13}
var sparse = [...]int8{2: -5, 5: 7, 1}
var limit = 40
var zeroed int16

const hexdigits = "0123456789abcdef"

func TableLookup(i uint8) uint32 { return crcTab[i&7] ^ crcTab[(i>>3)&7] }
func TableIdxPanic(i int) int    { return primes[i] }
func TableConstIdx() uint32      { return crcTab[3] }
func SparseSum() int8 {
	var s int8
	for i, v := range sparse {
		s += v * int8(i+1)
	}
	return s
}
func TableLen(i int) int          { return i%len(crcTab) + len(primes) + len(sparse) }
func PkgVar(x int) bool           { return x < limit && zeroed == 0 }
func HexDigit(n uint8) byte       { return hexdigits[n&15] }
func ByteAt(s string, i int) byte { return s[i] }
func FirstByteOr(s string, d byte) byte {
	if len(s) == 0 {
		return d
	}
	return s[0]
}

func HashBytes(b []byte) uint32 {
	h := uint32(2166136261)
	for _, c := range b {
		h ^= uint32(c)
		h *= 16777619
	}
	return h
}

func StrLen(s string, b []byte) int { return len(s)*3 - len(b) }

func CountByte(s string, c byte) int {
	n := 0
	for i := 0; i < len(s); i++ {
		if s[i] == c {
			n++
		}
	}
	return n
}

func Crc(bs []byte) uint32 {
	crc := ^uint32(0)
	for _, b := range bs {
		crc = crcTab[byte(crc)&7] ^ (crc >> 3) ^ uint32(b)
	}
	return ^crc
}

func StrConv(b []byte, i int) byte { return string(b)[i] + []byte("xyz")[1] }

// ---------------------------------------------------------------- intrinsics

func Len64(x uint64) int { return bits.Len64(x) }
func Len32(x uint32) int { return bits.Len32(x) }
func Len16(x uint16) int { return bits.Len16(x) }
func Len8(x uint8) int   { return bits.Len8(x) }
func LenUint(x uint) int { return bits.Len(x) }
func Tz64(x uint64) int  { return bits.TrailingZeros64(x) }
func Tz32(x uint32) int  { return bits.TrailingZeros32(x) }
func Tz16(x uint16) int  { return bits.TrailingZeros16(x) }
func Tz8(x uint8) int    { return bits.TrailingZeros8(x) }
func TzUint(x uint) int  { return bits.TrailingZeros(x) }
func Lz32(x uint32) int  { return bits.LeadingZeros32(x) }
func Lz64(x uint64) int  { return bits.LeadingZeros64(x) }
func MinMax(a, b, c int32) int32 {
	return min(a, b, c) + max(a, b) - max(c, 7)
}
func MinDur(a, b time.Duration) time.Duration { return min(a, b, time.Second) }
func VarintLenBranchy(v uint64) int {
	if v == 0 {
		return 1
	}
	return (bits.Len64(v) + 6) / 7
}

// ---------------------------------------------------------------- explicit panic

func MustPos(x int) int {
	if x <= 0 {
		panic("not positive")
	}
	return x - 1
}

func SwitchPanic(x uint8) int {
	switch x & 3 {
	case 0:
		return 1
	case 1:
		return 2
	case 2:
		return 3
	default:
		panic("three")
	}
}

func PanicInLoop(xs []int8) int {
	s := 0
	for _, x := range xs {
		if x == -128 {
			panic("min")
		}
		s += int(x)
	}
	return s
}
