// Package trickle: verbatim copy of trickleDepthInfo of
// /repo/ipld/unixfs/importer/trickle/trickledag.go.
package trickle

import (
	h "go2coqtest/stubs/h"
)

const depthRepeat = 4

func mkNode(n int) *h.FSNodeOverDag { return &h.FSNodeOverDag{N: n} }

func trickleDepthInfo(node *h.FSNodeOverDag, maxlinks int) (depth int, repeatNumber int) {
	n := node.NumChildren()

	if n < maxlinks {
		// We didn't even added the initial `maxlinks` leaf nodes (`FillNodeLayer`).
		return 0, 0
	}

	nonLeafChildren := n - maxlinks
	// The number of non-leaf child nodes added in `fillTrickleRec` (after
	// the `FillNodeLayer` call).

	depth = nonLeafChildren/depthRepeat + 1
	// "Deduplicate" the added `depthRepeat` sub-graphs at each depth
	// (rounding it up since we may be on an unfinished depth with less
	// than `depthRepeat` sub-graphs).

	repeatNumber = nonLeafChildren % depthRepeat
	// What's left after taking full depths of `depthRepeat` sub-graphs
	// is the current `repeatNumber` we're at (this fractional part is
	// what we rounded up before).

	return
}
