// Package files: verbatim copies of functions of /repo/files/util.go.
// selftest.sh checks the SHA-256 of each function's source text against /repo.
package files

import "os"

func ModePermsToUnixPerms(fileMode os.FileMode) uint32 {
	return uint32((fileMode & 0xC00000 >> 12) | (fileMode & os.ModeSticky >> 11) | (fileMode & 0x1FF))
}

func UnixPermsToModePerms(unixPerms uint32) os.FileMode {
	if unixPerms == 0 {
		return 0
	}
	return os.FileMode((unixPerms & 0x1FF) | (unixPerms & 0xC00 << 12) | (unixPerms & 0x200 << 11))
}
