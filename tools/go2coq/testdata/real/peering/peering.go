// Package peering: verbatim copy of (*peerHandler).nextBackoff of
// /repo/peering/peering.go with its constants; math/rand/v2 is replaced by a
// scripted stub so the harness controls the draws.
package peering

import (
	"time"

	"go2coqtest/stubs/rand"
)

const (
	maxBackoff       = 10 * time.Minute
	maxBackoffJitter = 10 // %
	initialDelay     = 5 * time.Second
)

type peerHandler struct {
	nextDelay time.Duration
}

func setOracles(lines []int, vals []int64) { rand.Set(lines, vals) }

func (ph *peerHandler) nextBackoff() time.Duration {
	if ph.nextDelay < maxBackoff {
		ph.nextDelay += ph.nextDelay/2 + time.Duration(rand.Int64N(int64(ph.nextDelay)))
	}

	// If we've gone over the max backoff, reduce it under the max.
	if ph.nextDelay > maxBackoff {
		ph.nextDelay = maxBackoff
		// randomize the backoff a bit (10%).
		ph.nextDelay -= time.Duration(rand.Int64N(int64(maxBackoff) * maxBackoffJitter / 100))
	}

	return ph.nextDelay
}
