// Package verifcid: verbatim copies of the defaultAllowlist methods of
// /repo/verifcid/allowlist.go and the constants of /repo/verifcid/cid.go.
package verifcid

import (
	mh "go2coqtest/stubs/mh"
)

const (
	DefaultMinDigestSize         = 20
	DefaultMaxDigestSize         = 128
	DefaultMaxIdentityDigestSize = 128
)

type defaultAllowlist struct{}

func (defaultAllowlist) IsAllowed(code uint64) bool {
	switch code {
	case mh.SHA2_256, mh.SHA2_512,
		mh.SHAKE_256,
		mh.DBL_SHA2_256,
		mh.BLAKE3,
		mh.IDENTITY,

		mh.SHA3_224, mh.SHA3_256, mh.SHA3_384, mh.SHA3_512,
		mh.KECCAK_224, mh.KECCAK_256, mh.KECCAK_384, mh.KECCAK_512,

		mh.SHA1: // not really secure but still useful for git
		return true
	default:
		if code >= mh.BLAKE2B_MIN+19 && code <= mh.BLAKE2B_MAX {
			return true
		}
		if code >= mh.BLAKE2S_MIN+19 && code <= mh.BLAKE2S_MAX {
			return true
		}

		return false
	}
}

func (defaultAllowlist) MinDigestSize(code uint64) int {
	switch code {
	case mh.IDENTITY:
		// Identity hashes are exempt from minimum size requirements
		// as they embed data directly
		return 0
	default:
		return DefaultMinDigestSize
	}
}

func (defaultAllowlist) MaxDigestSize(code uint64) int {
	switch code {
	case mh.IDENTITY:
		// Identity CIDs embed data directly, limit to prevent abuse
		return DefaultMaxIdentityDigestSize
	default:
		// Maximum size for cryptographic hash digests
		return DefaultMaxDigestSize
	}
}
