// Package uio: verbatim copies of functions of /repo/ipld/unixfs/io/directory.go.
package uio

import (
	"math/bits"

	cid "go2coqtest/stubs/cid"
)

func mkCid(n int) cid.Cid { return cid.OfLen(n) }

func varintLen(v uint64) int {
	// Protobuf varints use 7 bits per byte (MSB is continuation flag), so a value
	// requiring N bits needs ceil(N/7) bytes. This is equivalent to:
	//   if v == 0 { return 1 }
	//   return (bits.Len64(v) + 6) / 7
	// but avoids branching: (9*bitLen + 64) / 64 maps bitLen=0 to 1 and computes
	// ceil(bitLen/7) for bitLen>0 (since 9/64 approximates 1/7).
	return int(9*uint32(bits.Len64(v))+64) / 64
}

func linkSerializedSize(name string, c cid.Cid, tsize uint64) int {
	cidLen := len(c.Bytes())
	nameLen := len(name)

	// PBLink encoding (all field tags are 1 byte since field numbers < 16):
	// - Hash (field 1, bytes): tag(1) + len_varint + cid_bytes
	// - Name (field 2, string): tag(1) + len_varint + name_bytes
	// - Tsize (field 3, varint): tag(1) + varint
	linkLen := 1 + varintLen(uint64(cidLen)) + cidLen +
		1 + varintLen(uint64(nameLen)) + nameLen +
		1 + varintLen(tsize)

	// Wrapper in PBNode.Links (field 2): tag(1) + len_varint + message
	return 1 + varintLen(uint64(linkLen)) + linkLen
}
