// Package namesys: verbatim copy of minNonZeroTTL of /repo/namesys/utilities.go.
package namesys

import "time"

func minNonZeroTTL(a, b time.Duration) time.Duration {
	ttl := min(a, b)
	if ttl <= 0 {
		ttl = max(0, a, b)
	}
	return ttl
}
