module go2coqtest

go 1.25.7
