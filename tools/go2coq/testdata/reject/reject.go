// Package reject: every function here uses something outside the G0 subset
// (or breaks one of its side rules).  go2coq must refuse each of them with a
// message naming the construct; see reject.list.
package reject

import (
	"math/bits"
	"strings"

	"go2coqtest/stubs/rand"
)

type T struct {
	a, b int
	m    map[int]int
}

type I interface{ M(int) int }

var Exported = 5
var mutated = 1
var addrTaken = 2
var tab = [4]int{1, 2, 3, 4}
var sliced = []int{1, 2, 3}
var fromCall = bits.Len(7)

func init() {
	mutated = 3
	p := &addrTaken
	*p = 4
	tab[1] = 9
	_ = sliced[1:]
}

func Goroutine(x int) int                  { go func() {}(); return x }
func Defer(x int) int                      { defer func() {}(); return x }
func Closure(x int) int                    { f := func() int { return x }; return f() }
func MapParam(m map[int]int) int           { return m[1] }
func MapIndex(t T) int                     { return t.m[1] }
func PtrDeref(p *int) int                  { return *p }
func AddrOf(x int) int                     { p := &x; return *p }
func Float(x float64) int                  { return int(x) }
func FloatLocal(x int) int                 { y := float64(x) * 1.5; return int(y) }
func Append(xs []int) int                  { xs = append(xs, 1); return len(xs) }
func Make(n int) int                       { xs := make([]int, n); return len(xs) }
func SliceExpr(xs []int) int               { return len(xs[1:]) }
func ElemAssign(xs []int) int              { xs[0] = 1; return xs[0] }
func CompositeLit(x int) int               { t := T{a: x}; return t.a }
func StructField(t T) int                  { return t.a }
func UnknownCall(s string) int             { return strings.Count(s, "a") }
func IfaceCall(i I, x int) int             { return i.M(x) }
func FuncValue(f func(int) int, x int) int { return f(x) }
func StringCompare(a, b string) bool       { return a == b }
func StringConcat(a, b string) int         { return len(a + b) }
func StringFromInt(r rune) int             { return len(string(r)) }
func RangeString(s string) int {
	n := 0
	for range s {
		n++
	}
	return n
}
func RangeAssign(xs []int) int {
	var i int
	for i = range xs {
	}
	return i
}
func RangeVarAssigned(xs []int) int {
	s := 0
	for i, x := range xs {
		x++
		s += x + i
	}
	return s
}
func Fallthrough(x int) int {
	switch x {
	case 1:
		x++
		fallthrough
	case 2:
		x++
	}
	return x
}
func LabeledBreak(n int) int {
outer:
	for i := 0; i < n; i++ {
		for j := 0; j < n; j++ {
			if j == 3 {
				break outer
			}
		}
	}
	return n
}
func Goto(x int) int {
	if x > 0 {
		goto end
	}
	x++
end:
	return x
}
func Select(c chan int) int {
	select {
	case v := <-c:
		return v
	}
}
func TypeSwitch(i any) int {
	switch i.(type) {
	case int:
		return 1
	}
	return 0
}
func TypeAssert(i any) int           { return i.(int) }
func Generic[N int | int8](x N) N    { return x + 1 }
func Variadic(xs ...int) int         { return len(xs) }
func NoResult(x int)                 {}
func ErrorResult(x int) (int, error) { return x, nil }

func OracleInLoop(n int64) int64 {
	var s int64
	for i := int64(0); i < n; i++ {
		s += rand.Int64N(10)
	}
	return s
}
func OracleRec(n int64) int64 {
	if n <= 0 {
		return 0
	}
	return rand.Int64N(n) + OracleRec(n-1)
}
func MutualA(n int) int {
	if n <= 0 {
		return 0
	}
	return MutualB(n - 1)
}
func MutualB(n int) int {
	if n <= 0 {
		return 1
	}
	return MutualA(n - 1)
}
func NotListed(x int) int      { return x }
func CallsNotListed(x int) int { return NotListed(x) + 1 }

func UsesExportedVar(x int) int { return x + Exported }
func UsesMutatedVar(x int) int  { return x + mutated }
func UsesAddrTaken(x int) int   { return x + addrTaken }
func UsesMutatedTab(i int) int  { return tab[i&3] }
func UsesSlicedTab(i int) int   { return sliced[i&1] }
func UsesNonConstVar(x int) int { return x + fromCall }
func AssignsPkgVar(x int) int   { mutated = x; return x }

func (t *T) UnconfiguredField() int   { return t.a }
func (t T) ValueRecvWrite(x int) int  { t.a = x; return t.a }
func (t *T) RecvEscapes() *T          { return t }
func (t *T) WithFields(x int) int     { t.a += x; return t.a }
func CallsWithFields(t *T, x int) int { return t.WithFields(x) }

func AbstractMisuse(t T, x int) int { return t.a + len(t.m) + x }

func FuelledInShortCircuit(x uint32) bool { return x > 5 && Loop(x) > 3 }
func Loop(x uint32) int {
	c := 0
	for x != 0 {
		x >>= 1
		c++
	}
	return c
}
func LocalStruct(x int) int {
	var t T
	_ = t
	return x
}
func BitsUnknown(x uint64) int   { return bits.OnesCount64(x) }
func MultiValueArg(a, b int) int { return two(pair(a, b)) }
func pair(a, b int) (int, int)   { return a, b }
func two(a, b int) int           { return a + b }
