// Command harness runs the go2coq-generated validation harness of one of the
// test packages: it executes every translated Go function on generated
// arguments and writes Coq check files (see ../../../README.md, "Validation").
//
// The Go2coqHarness functions live in zz_go2coq_harness.go files that
// selftest.sh generates with `go2coq -harness` before building this command.
package main

import (
	"flag"
	"fmt"
	"os"

	"go2coqtest/g0"
	rfiles "go2coqtest/real/files"
	rnamesys "go2coqtest/real/namesys"
	rpeering "go2coqtest/real/peering"
	rtrickle "go2coqtest/real/trickle"
	ruio "go2coqtest/real/uio"
	rverifcid "go2coqtest/real/verifcid"
)

func main() {
	pkg := flag.String("pkg", "", "test package: g0, files, uio, namesys, peering, trickle, verifcid")
	dir := flag.String("dir", "", "output directory for Check_*.v and checks.txt")
	req := flag.String("req", "", "Coq command importing the generated module, e.g. 'From T Require Import Gen_g0.'")
	seed := flag.Uint64("seed", 1, "PRNG seed")
	n := flag.Int("n", 2000, "cases per function")
	groups := flag.Int("groups", 1, "number of Check_<k>.v files to spread the functions over")
	flag.Parse()
	hs := map[string]func(string, string, uint64, int, int) error{
		"g0":       g0.Go2coqHarness,
		"files":    rfiles.Go2coqHarness,
		"uio":      ruio.Go2coqHarness,
		"namesys":  rnamesys.Go2coqHarness,
		"peering":  rpeering.Go2coqHarness,
		"trickle":  rtrickle.Go2coqHarness,
		"verifcid": rverifcid.Go2coqHarness,
	}
	h, ok := hs[*pkg]
	if !ok || *dir == "" || *req == "" {
		flag.Usage()
		os.Exit(2)
	}
	if err := h(*dir, *req, *seed, *n, *groups); err != nil {
		fmt.Fprintln(os.Stderr, "harness:", err)
		os.Exit(1)
	}
}
