// Package mh is a stand-in for github.com/multiformats/go-multihash (v0.2.3
// constants).  selftest.sh checks that the model generated from /repo (where
// go/types reads the real constants) is textually identical to the model
// generated from the copy that uses these, so a drift is detected.
package mh

const (
	IDENTITY     = 0x00
	SHA1         = 0x11
	SHA2_256     = 0x12
	SHA2_512     = 0x13
	SHA3_224     = 0x17
	SHA3_256     = 0x16
	SHA3_384     = 0x15
	SHA3_512     = 0x14
	KECCAK_224   = 0x1A
	KECCAK_256   = 0x1B
	KECCAK_384   = 0x1C
	KECCAK_512   = 0x1D
	BLAKE3       = 0x1E
	SHAKE_128    = 0x18
	SHAKE_256    = 0x19
	BLAKE2B_MIN  = 0xb201
	BLAKE2B_MAX  = 0xb240
	BLAKE2S_MIN  = 0xb241
	BLAKE2S_MAX  = 0xb260
	DBL_SHA2_256 = 0x56
)
