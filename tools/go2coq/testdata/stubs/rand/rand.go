// Package rand is a scripted stand-in for math/rand/v2 used by the go2coq
// validation harness: the call on source line lines[i] returns vals[i].
package rand

import "runtime"

var (
	lines []int
	vals  []int64
)

// Set scripts the next calls.
func Set(l []int, v []int64) { lines, vals = l, v }

// Int64N mirrors math/rand/v2.Int64N: it panics if n <= 0.  The returned value
// is the scripted one for the calling source line, whatever n is.
func Int64N(n int64) int64 {
	if n <= 0 {
		panic("invalid argument to Int64N")
	}
	_, _, line, _ := runtime.Caller(1)
	for i, l := range lines {
		if l == line {
			return vals[i]
		}
	}
	panic("go2coq harness: unscripted oracle call")
}
