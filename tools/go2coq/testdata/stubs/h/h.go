// Package h is a stand-in for boxo/ipld/unixfs/importer/helpers.
package h

type FSNodeOverDag struct{ N int }

func (n *FSNodeOverDag) NumChildren() int { return n.N }
