// Package cid is a stand-in for github.com/ipfs/go-cid: only Bytes() matters.
package cid

type Cid struct{ str string }

func (c Cid) Bytes() []byte { return []byte(c.str) }

// OfLen returns a Cid whose binary form has n bytes.
func OfLen(n int) Cid { return Cid{string(make([]byte, n))} }
