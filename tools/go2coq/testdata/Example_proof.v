(* Example_proof.v -- a worked example of a proof about go2coq output.

   Gen_files.v is generated from /repo/files/util.go:

     func ModePermsToUnixPerms(fileMode os.FileMode) uint32 {
         return uint32((fileMode & 0xC00000 >> 12) | (fileMode & os.ModeSticky >> 11) | (fileMode & 0x1FF))
     }

   becomes (os.FileMode and uint32 are both U32; & and >> associate to the left)

     Definition ModePermsToUnixPerms (fileMode : Z) : Z :=
       (or_ U32 (or_ U32 (shr U32 (and_ U32 fileMode 12582912) 12)
                         (shr U32 (and_ U32 fileMode 1048576) 11))
                (and_ U32 fileMode 511)).

   Claim: for every in-range argument none of the wrappers wraps, i.e. the
   function is the plain bit-level formula, and its result fits in 12 bits.
   selftest.sh compiles this file against the freshly generated module. *)

From Coq Require Import ZArith Lia Bool List.
From V Require Import lib.GoInt.
From T Require Import Gen_files.
Open Scope Z_scope.

Lemma ModePermsToUnixPerms_nowrap : forall m, in_range U32 m ->
  ModePermsToUnixPerms m =
    Z.lor (Z.lor (Z.shiftr (Z.land m 12582912) 12) (Z.shiftr (Z.land m 1048576) 11))
          (Z.land m 511).
Proof.
  intros m Hm. unfold ModePermsToUnixPerms.
  assert (H0 : 0 <= m) by (unfold_range; lia).
  assert (A : 0 <= Z.land m 12582912 <= 12582912) by (apply land_le_r; lia).
  assert (B : 0 <= Z.land m 1048576 <= 1048576) by (apply land_le_r; lia).
  assert (C : 0 <= Z.land m 511 <= 511) by (apply land_le_r; lia).
  rewrite !and_nowrap_r by (unfold_range; lia).                      (* the three masks *)
  rewrite !shr_nowrap by (try (unfold bits; lia); unfold_range; lia). (* the two shifts *)
  assert (A' : 0 <= Z.shiftr (Z.land m 12582912) 12 <= 3072)
    by (rewrite Z.shiftr_div_pow2 by lia; change (2 ^ 12) with 4096; split;
        [apply Z.div_pos; lia | apply Z.div_le_upper_bound; lia]).
  assert (B' : 0 <= Z.shiftr (Z.land m 1048576) 11 <= 512)
    by (rewrite Z.shiftr_div_pow2 by lia; change (2 ^ 11) with 2048; split;
        [apply Z.div_pos; lia | apply Z.div_le_upper_bound; lia]).
  rewrite (or_nowrap U32 (Z.shiftr _ 12)) by (try lia; unfold_range; lia).
  assert (AB : 0 <= Z.lor (Z.shiftr (Z.land m 12582912) 12) (Z.shiftr (Z.land m 1048576) 11) < 2 ^ 12)
    by (apply lor_bound; change (2 ^ 12) with 4096; lia).
  change (2 ^ 12) with 4096 in AB.
  rewrite or_nowrap by (try lia; unfold_range; lia).
  reflexivity.
Qed.

(* Consequence: unix permission values produced by boxo fit in 12 bits. *)
Lemma ModePermsToUnixPerms_12bits : forall m, in_range U32 m ->
  0 <= ModePermsToUnixPerms m < 4096.
Proof.
  intros m Hm. rewrite ModePermsToUnixPerms_nowrap by assumption.
  assert (H0 : 0 <= m) by (unfold_range; lia).
  change 4096 with (2 ^ 12). apply lor_bound; [lia | apply lor_bound; [lia | |] |].
  - pose proof (shiftr_in_range U32 (Z.land m 12582912) 12) as S.
    pose proof (land_le_r m 12582912). rewrite Z.shiftr_div_pow2 by lia.
    change (2 ^ 12) with 4096. split; [apply Z.div_pos; lia | apply Z.div_lt_upper_bound; lia].
  - pose proof (land_le_r m 1048576). rewrite Z.shiftr_div_pow2 by lia.
    change (2 ^ 11) with 2048; change (2 ^ 12) with 4096.
    split; [apply Z.div_pos; lia | apply Z.div_lt_upper_bound; lia].
  - pose proof (land_le_r m 511). change (2 ^ 12) with 4096. lia.
Qed.

(* The _ok companion is constant true: the function cannot panic. *)
Lemma ModePermsToUnixPerms_total : forall m, ModePermsToUnixPerms_ok m = true.
Proof. reflexivity. Qed.

Print Assumptions ModePermsToUnixPerms_nowrap.
Print Assumptions ModePermsToUnixPerms_12bits.
