package main

import (
	"fmt"
	"go/ast"
	"go/token"
	"go/types"
	"sort"
	"strings"
)

// ctx: the continuations in force while compiling a statement.
type ctx struct {
	ret  func(full string) string // leave the function with this *full* result term
	brk  func() string            // nil outside loop/switch
	cont func() string            // nil outside loop
}

type binder struct {
	name string
	term string
}

type pre struct {
	guards  []string
	binders []binder
}

// fc is the state of compiling one function in one mode.
type fc struct {
	t     *Translator
	f     *Func
	mode  Mode
	names map[types.Object]string
	used  map[string]bool

	guards  []string
	binders []binder
	inSC    int // depth of short-circuit right-hand sides

	fuelVar  string // name of the fuel variable usable for loops / calls
	selfFuel string // fuel passed to recursive self calls
	outSize  int
}

const maxOutput = 8 << 20

func (c *fc) fail(pos token.Pos, format string, args ...any) {
	c.t.failf(pos, format, args...)
}

func (c *fc) fresh(base string) string {
	base = sanitize(base)
	name := base
	if reservedNames[name] || c.t.globals[name] || c.used[name] {
		for i := 1; ; i++ {
			name = fmt.Sprintf("%s_%d", base, i)
			if !reservedNames[name] && !c.t.globals[name] && !c.used[name] {
				break
			}
		}
	}
	c.used[name] = true
	return name
}

func (c *fc) declare(obj types.Object) string {
	if n, ok := c.names[obj]; ok {
		return n
	}
	n := c.fresh(obj.Name())
	c.names[obj] = n
	return n
}

func indent(s string) string {
	return "  " + strings.ReplaceAll(s, "\n", "\n  ")
}

func (c *fc) grow(s string) string {
	c.outSize += len(s)
	if c.outSize > maxOutput*4 {
		c.fail(c.f.decl.Pos(), "generated term too large (continuation duplication over many sequential branches); split the function")
	}
	return s
}

func memo(f func() string) func() string {
	var done bool
	var v string
	return func() string {
		if !done {
			v = f()
			done = true
		}
		return v
	}
}

// ---------------------------------------------------------------- results

func tupleTerm(parts []string) string {
	switch len(parts) {
	case 0:
		return "tt"
	case 1:
		return parts[0]
	}
	return "(" + strings.Join(parts, ", ") + ")"
}

func tupleType(parts []string) string {
	switch len(parts) {
	case 0:
		return "unit"
	case 1:
		return parts[0]
	}
	return "(" + strings.Join(parts, " * ") + ")"
}

func (f *Func) valueType() string {
	var ps []string
	for _, r := range f.Results {
		ps = append(ps, r.Ty.coq())
	}
	return tupleType(ps)
}

// fullType: the Coq result type of the generated function in the given mode.
func (c *fc) fullType() string {
	if c.mode == ModeOk {
		return "bool"
	}
	if c.f.fuelled {
		return "option " + c.f.valueType()
	}
	return c.f.valueType()
}

func (c *fc) wrapFull(v string) string {
	if c.mode == ModeOk {
		return "true"
	}
	if c.f.fuelled {
		return "(Some " + v + ")"
	}
	return v
}

func (c *fc) exhausted() string {
	if c.mode == ModeOk {
		return "false"
	}
	return "None"
}

func (c *fc) defaultValue() string {
	var ps []string
	for _, r := range c.f.Results {
		ps = append(ps, r.Ty.zero())
	}
	return tupleTerm(ps)
}

// ---------------------------------------------------------------- guards

func (c *fc) addGuard(kind string, pos token.Pos, term string, goExpr string) {
	c.guards = append(c.guards, term)
	key := fmt.Sprintf("%s@%d", kind, pos)
	if !c.f.scSeen[key] {
		c.f.scSeen[key] = true
		c.f.sideconds = append(c.f.sideconds, SideCond{Kind: kind, Pos: pos, Coq: term, Go: goExpr})
	}
}

func (c *fc) take() pre {
	p := pre{c.guards, c.binders}
	c.guards, c.binders = nil, nil
	return p
}

func andAll(gs []string) string {
	if len(gs) == 0 {
		return "true"
	}
	out := gs[len(gs)-1]
	for i := len(gs) - 2; i >= 0; i-- {
		out = "(andb " + gs[i] + " " + out + ")"
	}
	return out
}

// wrap puts the guards and hoisted fuelled calls of one statement around the
// term for "this statement and everything after it".
func (c *fc) wrap(p pre, body string, cx *ctx) string {
	out := body
	if c.mode == ModeOk && len(p.guards) > 0 {
		out = "if " + andAll(p.guards) + " then (\n" + indent(out) + "\n) else " + cx.ret("false")
	}
	for i := len(p.binders) - 1; i >= 0; i-- {
		b := p.binders[i]
		out = "match " + b.term + " with\n| None => " + cx.ret(c.exhausted()) + "\n| Some " + b.name + " => (\n" + indent(out) + "\n  )\nend"
	}
	return c.grow(out)
}

// ---------------------------------------------------------------- expressions

func (c *fc) typeOf(e ast.Expr) types.Type { return c.t.ld.Info.TypeOf(e) }

func (c *fc) gtyOf(e ast.Expr) gty {
	g, ok := classify(c.typeOf(e))
	if !ok {
		c.fail(e.Pos(), "expression %s has unsupported type %s", types.ExprString(e), c.typeOf(e))
	}
	return g
}

func (c *fc) src(e ast.Expr) string { return types.ExprString(e) }

func (c *fc) expr(e ast.Expr) (string, gty) {
	e = ast.Unparen(e)
	for _, ap := range c.f.abstract {
		if c.t.matchesAbstract(e, ap) {
			return ap.name, ap.ty
		}
	}
	tv, ok := c.t.ld.Info.Types[e]
	if !ok {
		c.fail(e.Pos(), "no type information for expression %s", c.src(e))
	}
	if tv.IsType() {
		c.fail(e.Pos(), "type expression %s used as value", c.src(e))
	}
	if tv.Value != nil {
		return c.t.constLit(tv.Value, tv.Type, e.Pos())
	}
	switch e := e.(type) {
	case *ast.Ident:
		return c.ident(e)
	case *ast.SelectorExpr:
		return c.selector(e)
	case *ast.BinaryExpr:
		return c.binary(e)
	case *ast.UnaryExpr:
		return c.unary(e)
	case *ast.CallExpr:
		s, gs := c.call(e)
		if len(gs) != 1 {
			c.fail(e.Pos(), "call %s yields %d values where one is needed", c.src(e), len(gs))
		}
		return s, gs[0]
	case *ast.IndexExpr:
		return c.index(e)
	case *ast.BasicLit:
		c.fail(e.Pos(), "literal %s of unsupported type", e.Value)
	case *ast.CompositeLit:
		c.fail(e.Pos(), "composite literal: unsupported")
	case *ast.FuncLit:
		c.fail(e.Pos(), "function literal: unsupported")
	case *ast.SliceExpr:
		c.fail(e.Pos(), "slice expression %s: unsupported", c.src(e))
	case *ast.StarExpr:
		c.fail(e.Pos(), "pointer dereference %s: unsupported", c.src(e))
	case *ast.TypeAssertExpr:
		c.fail(e.Pos(), "type assertion: unsupported")
	}
	c.fail(e.Pos(), "unsupported expression %s (%T)", c.src(e), e)
	panic("unreachable")
}

func (c *fc) ident(id *ast.Ident) (string, gty) {
	obj := c.t.ld.Info.Uses[id]
	if obj == nil {
		obj = c.t.ld.Info.Defs[id]
	}
	switch o := obj.(type) {
	case *types.Var:
		if o == c.f.recv {
			c.fail(id.Pos(), "receiver %s used other than through a configured field", id.Name)
		}
		for _, ap := range c.f.abstract {
			if ap.obj == o {
				c.fail(id.Pos(), "parameter %s is abstracted: it may only occur inside %s", id.Name, ap.expr)
			}
		}
		if n, ok := c.names[o]; ok {
			g, ok := classify(o.Type())
			if !ok {
				c.fail(id.Pos(), "variable %s has unsupported type %s", id.Name, o.Type())
			}
			return n, g
		}
		if o.Parent() == c.t.ld.Pkg.Scope() {
			return c.pkgVarRead(o, id.Pos())
		}
		if o.Pkg() != c.t.ld.Pkg {
			c.fail(id.Pos(), "variable %s of another package: unsupported", id.Name)
		}
		c.fail(id.Pos(), "variable %s of unsupported type %s (or not declared in the translated part)", id.Name, o.Type())
	case *types.Nil:
		c.fail(id.Pos(), "nil: unsupported")
	case *types.Func:
		c.fail(id.Pos(), "function value %s: unsupported", id.Name)
	}
	c.fail(id.Pos(), "unsupported identifier %s", id.Name)
	panic("unreachable")
}

func (c *fc) pkgVarRead(v *types.Var, pos token.Pos) (string, gty) {
	g, ok := classify(v.Type())
	if !ok {
		c.fail(pos, "package variable %s has unsupported type %s", v.Name(), v.Type())
	}
	if g.k == kList {
		if _, isStr := v.Type().Underlying().(*types.Basic); isStr {
			c.fail(pos, "package-level string variable %s: unsupported (make it a const)", v.Name())
		}
		tb := c.t.table(v, pos)
		return tb.CoqName, g
	}
	pi := c.t.pkgVar(v, pos)
	if !pi.readonly {
		c.fail(pos, "package variable %s cannot be inlined as a constant: %s", v.Name(), pi.why)
	}
	if len(pi.spec.Values) == 0 {
		return g.zero(), g
	}
	init := pi.spec.Values[pi.idx]
	tv := c.t.ld.Info.Types[init]
	if tv.Value == nil {
		c.fail(pos, "package variable %s is not initialised by a constant expression", v.Name())
	}
	// the constant is converted to the variable's type by the assignment
	return c.t.constLit(tv.Value, v.Type(), pos)
}

func (c *fc) fieldOf(e *ast.SelectorExpr) *fieldInfo {
	sel, ok := c.t.ld.Info.Selections[e]
	if !ok || sel.Kind() != types.FieldVal {
		return nil
	}
	x, ok := ast.Unparen(e.X).(*ast.Ident)
	if !ok || c.f.recv == nil || c.t.ld.Info.Uses[x] != types.Object(c.f.recv) {
		return nil
	}
	if len(sel.Index()) != 1 {
		return nil // promoted through embedding
	}
	for i := range c.f.fields {
		if c.f.fields[i].v == sel.Obj() {
			return &c.f.fields[i]
		}
	}
	return nil
}

func (c *fc) selector(e *ast.SelectorExpr) (string, gty) {
	if fi := c.fieldOf(e); fi != nil {
		return c.names[fi.v], fi.ty
	}
	if _, ok := c.t.ld.Info.Selections[e]; ok {
		c.fail(e.Pos(), "field or method selection %s: unsupported (only configured receiver fields)", c.src(e))
	}
	// qualified identifier pkg.X (constants were handled by the caller)
	c.fail(e.Pos(), "reference to %s: only constants of other packages are supported", c.src(e))
	panic("unreachable")
}

func (c *fc) binary(e *ast.BinaryExpr) (string, gty) {
	switch e.Op {
	case token.LAND, token.LOR:
		a, _ := c.expr(e.X)
		savedG, savedB := c.guards, c.binders
		c.guards, c.binders = nil, nil
		c.inSC++
		b, _ := c.expr(e.Y)
		c.inSC--
		if len(c.binders) > 0 {
			c.fail(e.Y.Pos(), "call to a fuelled (looping/recursive) function on the right of %s: unsupported", e.Op)
		}
		rg := c.guards
		c.guards, c.binders = savedG, savedB
		for _, g := range rg {
			if e.Op == token.LAND {
				c.guards = append(c.guards, "(implb "+a+" "+g+")")
			} else {
				c.guards = append(c.guards, "(orb "+a+" "+g+")")
			}
		}
		if e.Op == token.LAND {
			return "(andb " + a + " " + b + ")", gty{kBool, ""}
		}
		return "(orb " + a + " " + b + ")", gty{kBool, ""}
	case token.EQL, token.NEQ, token.LSS, token.LEQ, token.GTR, token.GEQ:
		gx := c.gtyOf(e.X)
		gy := c.gtyOf(e.Y)
		if gx.k != gy.k {
			c.fail(e.Pos(), "comparison %s between different kinds", c.src(e))
		}
		a, _ := c.expr(e.X)
		b, _ := c.expr(e.Y)
		bt := gty{kBool, ""}
		switch gx.k {
		case kInt:
			switch e.Op {
			case token.EQL:
				return "(Z.eqb " + a + " " + b + ")", bt
			case token.NEQ:
				return "(negb (Z.eqb " + a + " " + b + "))", bt
			case token.LSS:
				return "(Z.ltb " + a + " " + b + ")", bt
			case token.LEQ:
				return "(Z.leb " + a + " " + b + ")", bt
			case token.GTR:
				return "(Z.ltb " + b + " " + a + ")", bt
			case token.GEQ:
				return "(Z.leb " + b + " " + a + ")", bt
			}
		case kBool:
			switch e.Op {
			case token.EQL:
				return "(Bool.eqb " + a + " " + b + ")", bt
			case token.NEQ:
				return "(negb (Bool.eqb " + a + " " + b + "))", bt
			}
		}
		c.fail(e.Pos(), "comparison %s on %s: unsupported", e.Op, gx.desc())
	}
	// arithmetic
	g := c.gtyOf(e)
	if g.k != kInt {
		c.fail(e.Pos(), "operator %s on %s: unsupported", e.Op, g.desc())
	}
	if e.Op == token.SHL || e.Op == token.SHR {
		return c.shift(e.Op, e.X, e.Y, g, e.Pos()), g
	}
	a, ga := c.expr(e.X)
	b, gb := c.expr(e.Y)
	if ga.k != kInt || gb.k != kInt {
		c.fail(e.Pos(), "operator %s on non-integers: unsupported", e.Op)
	}
	return c.arith(e.Op, g, a, b, e.Y, e.Pos()), g
}

func (c *fc) isConst(e ast.Expr) bool {
	tv, ok := c.t.ld.Info.Types[e]
	return ok && tv.Value != nil
}

// arith: a OP b at integer type g.  yExpr is the Go divisor (for the guard).
func (c *fc) arith(op token.Token, g gty, a, b string, yExpr ast.Expr, pos token.Pos) string {
	var fn string
	switch op {
	case token.ADD:
		fn = "add"
	case token.SUB:
		fn = "sub"
	case token.MUL:
		fn = "mul"
	case token.QUO:
		fn = "quo"
	case token.REM:
		fn = "rem"
	case token.AND:
		fn = "and_"
	case token.OR:
		fn = "or_"
	case token.XOR:
		fn = "xor"
	case token.AND_NOT:
		fn = "andnot"
	default:
		c.fail(pos, "operator %s: unsupported", op)
	}
	if (op == token.QUO || op == token.REM) && (yExpr == nil || !c.isConst(yExpr)) {
		gs := "?"
		if yExpr != nil {
			gs = c.src(yExpr)
		}
		c.addGuard("div", pos, "(quo_ok "+b+")", gs+" != 0")
	}
	return "(" + fn + " " + g.ity + " " + a + " " + b + ")"
}

func (c *fc) shift(op token.Token, x, y ast.Expr, g gty, pos token.Pos) string {
	a, ga := c.expr(x)
	if ga.k != kInt {
		c.fail(pos, "shift of non-integer")
	}
	n, gn := c.expr(y)
	if gn.k != kInt {
		c.fail(pos, "shift count is not an integer")
	}
	if !c.isConst(y) && itySigned(gn.ity) {
		c.addGuard("shift", pos, "(shift_ok "+n+")", c.src(y)+" >= 0")
	}
	fn := "shl"
	if op == token.SHR {
		fn = "shr"
	}
	return "(" + fn + " " + g.ity + " " + a + " " + n + ")"
}

func (c *fc) unary(e *ast.UnaryExpr) (string, gty) {
	switch e.Op {
	case token.NOT:
		a, g := c.expr(e.X)
		if g.k != kBool {
			c.fail(e.Pos(), "! on non-bool")
		}
		return "(negb " + a + ")", g
	case token.ADD, token.SUB, token.XOR:
		g := c.gtyOf(e)
		if g.k != kInt {
			c.fail(e.Pos(), "unary %s on %s: unsupported", e.Op, g.desc())
		}
		a, _ := c.expr(e.X)
		switch e.Op {
		case token.ADD:
			return a, g
		case token.SUB:
			return "(neg " + g.ity + " " + a + ")", g
		default:
			return "(not_ " + g.ity + " " + a + ")", g
		}
	}
	c.fail(e.Pos(), "unary operator %s: unsupported", e.Op)
	panic("unreachable")
}

func (c *fc) index(e *ast.IndexExpr) (string, gty) {
	xt := c.typeOf(e.X)
	if xt == nil {
		c.fail(e.Pos(), "no type for %s", c.src(e.X))
	}
	switch xt.Underlying().(type) {
	case *types.Basic, *types.Slice, *types.Array:
	default:
		c.fail(e.Pos(), "index expression %s on %s: unsupported", c.src(e), xt)
	}
	gx, ok := classify(xt)
	if !ok || gx.k != kList {
		c.fail(e.Pos(), "index expression %s on %s: unsupported", c.src(e), xt)
	}
	x, _ := c.expr(e.X)
	i, gi := c.expr(e.Index)
	if gi.k != kInt {
		c.fail(e.Pos(), "non-integer index")
	}
	_, isArr := xt.Underlying().(*types.Array)
	if !(isArr && c.isConst(e.Index)) {
		c.addGuard("index", e.Pos(), "(index_ok "+x+" "+i+")", "0 <= "+c.src(e.Index)+" < len("+c.src(e.X)+")")
	}
	return "(nth (Z.to_nat " + i + ") " + x + " 0)", gty{kInt, gx.ity}
}

var bitsIntrinsics = map[string]string{
	"Len": "len_", "Len8": "len8", "Len16": "len16", "Len32": "len32", "Len64": "len64",
	"TrailingZeros": "trailing_zeros_", "TrailingZeros8": "trailing_zeros8", "TrailingZeros16": "trailing_zeros16",
	"TrailingZeros32": "trailing_zeros32", "TrailingZeros64": "trailing_zeros64",
	"LeadingZeros": "leading_zeros U64", "LeadingZeros8": "leading_zeros U8", "LeadingZeros16": "leading_zeros U16",
	"LeadingZeros32": "leading_zeros U32", "LeadingZeros64": "leading_zeros U64",
}

// call compiles a call expression; it may yield several values (then the
// term is a Coq tuple).
func (c *fc) call(e *ast.CallExpr) (string, []gty) {
	info := c.t.ld.Info
	if e.Ellipsis != token.NoPos {
		c.fail(e.Pos(), "call with ...: unsupported")
	}
	// conversion
	if tv, ok := info.Types[e.Fun]; ok && tv.IsType() {
		if len(e.Args) != 1 {
			c.fail(e.Pos(), "conversion with %d arguments", len(e.Args))
		}
		to, ok := classify(tv.Type)
		if !ok {
			c.fail(e.Pos(), "conversion to unsupported type %s", tv.Type)
		}
		from, ok := classify(c.typeOf(e.Args[0]))
		if !ok {
			c.fail(e.Pos(), "conversion from unsupported type %s", c.typeOf(e.Args[0]))
		}
		a, _ := c.expr(e.Args[0])
		switch {
		case from.k == kInt && to.k == kInt:
			if from.ity == to.ity {
				return a, []gty{to}
			}
			return "(conv " + from.ity + " " + to.ity + " " + a + ")", []gty{to}
		case from.k == kBool && to.k == kBool:
			return a, []gty{to}
		case from.k == kList && to.k == kList && from.ity == "U8" && to.ity == "U8":
			// string <-> []byte: the same byte list
			_, fs := c.typeOf(e.Args[0]).Underlying().(*types.Array)
			_, ts := tv.Type.Underlying().(*types.Array)
			if fs || ts {
				c.fail(e.Pos(), "array conversion: unsupported")
			}
			return a, []gty{to}
		case from.k == kList && to.k == kList && from.ity == to.ity:
			_, fs := c.typeOf(e.Args[0]).Underlying().(*types.Slice)
			_, ts := tv.Type.Underlying().(*types.Slice)
			if fs && ts {
				return a, []gty{to}
			}
		}
		c.fail(e.Pos(), "conversion %s from %s to %s: unsupported", c.src(e), c.typeOf(e.Args[0]), tv.Type)
	}
	obj := c.t.calleeObj(e)
	switch o := obj.(type) {
	case *types.Builtin:
		return c.builtin(e, o.Name())
	case *types.Func:
		if o.Pkg() != nil && o.Pkg().Path() == "math/bits" {
			if fn, ok := bitsIntrinsics[o.Name()]; ok {
				if len(e.Args) != 1 {
					c.fail(e.Pos(), "bits.%s with %d arguments", o.Name(), len(e.Args))
				}
				a, _ := c.expr(e.Args[0])
				return "(" + fn + " " + a + ")", []gty{{kInt, "I64"}}
			}
			c.fail(e.Pos(), "math/bits.%s is not in the intrinsic table", o.Name())
		}
		if oc, ok := c.t.cfg.Oracles[o.FullName()]; ok {
			return c.oracleCall(e, o, oc)
		}
		if g := c.t.byObj[o]; g != nil {
			return c.userCall(e, g)
		}
		c.fail(e.Pos(), "call to %s: not an intrinsic, not an oracle and not in -funcs", o.FullName())
	case nil:
		c.fail(e.Pos(), "call %s: callee is not a statically known function (function value, interface method or generic instantiation)", c.src(e))
	}
	c.fail(e.Pos(), "call %s: unsupported callee", c.src(e))
	panic("unreachable")
}

func (c *fc) builtin(e *ast.CallExpr, name string) (string, []gty) {
	ti := gty{kInt, "I64"}
	switch name {
	case "len":
		g := c.gtyOf(e.Args[0])
		if g.k != kList {
			c.fail(e.Pos(), "len of %s: unsupported", c.typeOf(e.Args[0]))
		}
		a, _ := c.expr(e.Args[0])
		return "(Z.of_nat (length " + a + "))", []gty{ti}
	case "min", "max":
		g := c.gtyOf(e)
		if g.k != kInt {
			c.fail(e.Pos(), "%s on %s: unsupported", name, g.desc())
		}
		fn := "Z." + name
		var parts []string
		for _, a := range e.Args {
			s, ga := c.expr(a)
			if ga.k != kInt {
				c.fail(a.Pos(), "%s on non-integer", name)
			}
			parts = append(parts, s)
		}
		out := parts[len(parts)-1]
		for i := len(parts) - 2; i >= 0; i-- {
			out = "(" + fn + " " + parts[i] + " " + out + ")"
		}
		return out, []gty{g}
	}
	c.fail(e.Pos(), "builtin %s: unsupported", name)
	panic("unreachable")
}

func (c *fc) oracleCall(e *ast.CallExpr, o *types.Func, oc OracleCfg) (string, []gty) {
	sites := c.f.oracleAt[e]
	if len(sites) != 1 {
		c.fail(e.Pos(), "internal: oracle call site not numbered")
	}
	s := sites[0]
	if len(e.Args) != oc.Arity {
		c.fail(e.Pos(), "oracle %s called with %d arguments, config says arity %d", s.GoFunc, len(e.Args), oc.Arity)
	}
	var args []string
	for i, a := range e.Args {
		as, ga := c.expr(a)
		args = append(args, as)
		for _, p := range oc.PosArgs {
			if p == i {
				if ga.k != kInt {
					c.fail(a.Pos(), "pos_args on a non-integer oracle argument")
				}
				c.addGuard("oracle_pos_arg", a.Pos(), "(Z.ltb 0 "+as+")", c.src(a)+" > 0 (else "+s.GoFunc+" panics)")
			}
		}
	}
	if !s.argsFilled {
		s.Args = args
		s.argsFilled = true
	}
	return s.Name, []gty{s.Ty}
}

func (c *fc) userCall(e *ast.CallExpr, g *Func) (string, []gty) {
	if len(g.fields) > 0 || len(g.abstract) > 0 {
		c.fail(e.Pos(), "call to %s which has configured receiver fields / abstract parameters: unsupported", g.GoName)
	}
	// receiver expression is ignored (the callee was translated without ever
	// touching its receiver) but must be free of effects: identifier or
	// selector chain only.
	if se, ok := ast.Unparen(e.Fun).(*ast.SelectorExpr); ok {
		if _, isSel := c.t.ld.Info.Selections[se]; isSel {
			if !pureRecv(se.X) {
				c.fail(e.Pos(), "method call %s: receiver expression must be an identifier or field path", c.src(e))
			}
			if rt := c.typeOf(se.X); rt != nil {
				if _, isIface := rt.Underlying().(*types.Interface); isIface {
					c.fail(e.Pos(), "interface method call %s: unsupported", c.src(e))
				}
			}
		}
	}
	var args []string
	if len(e.Args) != g.sig.Params().Len() {
		c.fail(e.Pos(), "call %s passes a multi-value expression: unsupported", c.src(e))
	}
	for _, a := range e.Args {
		s, _ := c.expr(a)
		args = append(args, s)
	}
	for _, s := range c.f.oracleAt[e] {
		args = append(args, s.Name)
	}
	var gs []gty
	for _, r := range g.Results {
		gs = append(gs, r.Ty)
	}
	fuel := ""
	if g.fuelled {
		fuel = c.fuelVar + " "
		if g == c.f {
			fuel = c.selfFuel + " "
		}
	}
	argStr := ""
	if len(args) > 0 {
		argStr = " " + strings.Join(args, " ")
	}
	fuelArg := strings.TrimSuffix(fuel, " ")
	if fuelArg != "" {
		fuelArg = " " + fuelArg
	}
	// the callee's own panics (nothing to check if it cannot panic)
	if !g.trivialOk {
		c.addGuard("call", e.Pos(), "("+g.OkName+fuelArg+argStr+")", g.GoName+" does not panic")
	}
	term := "(" + g.CoqName + fuelArg + argStr + ")"
	if g.fuelled {
		if c.inSC > 0 {
			c.fail(e.Pos(), "call to fuelled function %s on the right of && or ||: unsupported", g.GoName)
		}
		tmp := c.fresh("call_" + g.CoqName)
		c.binders = append(c.binders, binder{tmp, term})
		return tmp, gs
	}
	return term, gs
}

func pureRecv(e ast.Expr) bool {
	switch x := ast.Unparen(e).(type) {
	case *ast.Ident:
		return true
	case *ast.SelectorExpr:
		return pureRecv(x.X)
	}
	return false
}

// ---------------------------------------------------------------- statements

func (c *fc) stmts(list []ast.Stmt, k func() string, cx *ctx) string {
	if len(list) == 0 {
		return k()
	}
	rest := memo(func() string { return c.stmts(list[1:], k, cx) })
	return c.stmt(list[0], rest, cx)
}

func (c *fc) assertClean(pos token.Pos) {
	if len(c.guards) != 0 || len(c.binders) != 0 {
		c.fail(pos, "internal: pending guards at statement boundary")
	}
}

// target of an assignment
type target struct {
	blank bool
	name  string
	g     gty
}

func (c *fc) lhsTarget(e ast.Expr, define bool) target {
	switch x := ast.Unparen(e).(type) {
	case *ast.Ident:
		if x.Name == "_" {
			return target{blank: true}
		}
		var obj types.Object
		if define {
			obj = c.t.ld.Info.Defs[x]
		}
		if obj == nil {
			obj = c.t.ld.Info.Uses[x]
		}
		v, ok := obj.(*types.Var)
		if !ok {
			c.fail(e.Pos(), "cannot assign to %s", x.Name)
		}
		g, ok := classify(v.Type())
		if !ok {
			c.fail(e.Pos(), "variable %s has unsupported type %s", x.Name, v.Type())
		}
		if n, ok := c.names[v]; ok {
			return target{name: n, g: g}
		}
		if c.t.ld.Info.Defs[x] == obj && define {
			return target{name: c.declare(v), g: g}
		}
		c.fail(e.Pos(), "assignment to %s: not a local variable of the translated function", x.Name)
	case *ast.SelectorExpr:
		if fi := c.fieldOf(x); fi != nil {
			if !c.f.recvPtr {
				c.fail(e.Pos(), "assignment to field %s through a value receiver is lost on return: rejected", fi.name)
			}
			return target{name: c.names[fi.v], g: fi.ty}
		}
	}
	c.fail(e.Pos(), "assignment target %s: unsupported", c.src(e))
	panic("unreachable")
}

func (t target) pat() string {
	if t.blank {
		return "_"
	}
	return t.name
}

func (c *fc) stmt(s ast.Stmt, rest func() string, cx *ctx) string {
	c.assertClean(s.Pos())
	switch s := s.(type) {
	case *ast.EmptyStmt:
		return rest()
	case *ast.BlockStmt:
		return c.stmts(s.List, rest, cx)
	case *ast.ExprStmt:
		return c.exprStmt(s, rest, cx)
	case *ast.DeclStmt:
		return c.declStmt(s, rest, cx)
	case *ast.AssignStmt:
		return c.assign(s, rest, cx)
	case *ast.IncDecStmt:
		tg := c.lhsTarget(s.X, false)
		if tg.blank || tg.g.k != kInt {
			c.fail(s.Pos(), "%s on non-integer", s.Tok)
		}
		op := "add"
		if s.Tok == token.DEC {
			op = "sub"
		}
		p := c.take()
		return c.wrap(p, "let "+tg.name+" := ("+op+" "+tg.g.ity+" "+tg.name+" 1) in\n"+rest(), cx)
	case *ast.ReturnStmt:
		return c.returnStmt(s, cx)
	case *ast.IfStmt:
		return c.ifStmt(s, rest, cx)
	case *ast.SwitchStmt:
		return c.switchStmt(s, rest, cx)
	case *ast.ForStmt:
		return c.forStmt(s, rest, cx)
	case *ast.RangeStmt:
		return c.rangeStmt(s, rest, cx)
	case *ast.BranchStmt:
		if s.Label != nil {
			c.fail(s.Pos(), "labelled %s: unsupported", s.Tok)
		}
		switch s.Tok {
		case token.BREAK:
			if cx.brk == nil {
				c.fail(s.Pos(), "break outside loop/switch")
			}
			return cx.brk()
		case token.CONTINUE:
			if cx.cont == nil {
				c.fail(s.Pos(), "continue outside loop")
			}
			return cx.cont()
		case token.FALLTHROUGH:
			c.fail(s.Pos(), "fallthrough: unsupported")
		}
		c.fail(s.Pos(), "%s: unsupported", s.Tok)
	case *ast.LabeledStmt:
		c.fail(s.Pos(), "labelled statement: unsupported")
	case *ast.GoStmt:
		c.fail(s.Pos(), "go statement: unsupported")
	case *ast.DeferStmt:
		c.fail(s.Pos(), "defer: unsupported")
	case *ast.SendStmt:
		c.fail(s.Pos(), "channel send: unsupported")
	case *ast.SelectStmt:
		c.fail(s.Pos(), "select: unsupported")
	case *ast.TypeSwitchStmt:
		c.fail(s.Pos(), "type switch: unsupported")
	}
	c.fail(s.Pos(), "unsupported statement %T", s)
	panic("unreachable")
}

func (c *fc) exprStmt(s *ast.ExprStmt, rest func() string, cx *ctx) string {
	call, ok := ast.Unparen(s.X).(*ast.CallExpr)
	if !ok {
		c.fail(s.Pos(), "expression statement: unsupported")
	}
	if b, ok := c.t.calleeObj(call).(*types.Builtin); ok && b.Name() == "panic" {
		// A reachable panic: F_ok is false; the value of F is arbitrary (zero).
		key := fmt.Sprintf("panic@%d", s.Pos())
		if !c.f.scSeen[key] {
			c.f.scSeen[key] = true
			c.f.sideconds = append(c.f.sideconds, SideCond{Kind: "panic", Pos: s.Pos(), Coq: "false", Go: "explicit panic not reached"})
		}
		if c.mode == ModeOk {
			return cx.ret("false")
		}
		return cx.ret(c.wrapFull(c.defaultValue()))
	}
	// a call evaluated for its panics only
	if fo, ok := c.t.calleeObj(call).(*types.Func); ok && c.t.byObj[fo] != nil {
		_, _ = c.call(call)
		p := c.take()
		return c.wrap(p, rest(), cx)
	}
	c.fail(s.Pos(), "expression statement %s: unsupported", c.src(s.X))
	panic("unreachable")
}

func (c *fc) declStmt(s *ast.DeclStmt, rest func() string, cx *ctx) string {
	gd, ok := s.Decl.(*ast.GenDecl)
	if !ok {
		c.fail(s.Pos(), "declaration: unsupported")
	}
	switch gd.Tok {
	case token.CONST:
		return rest() // uses are constant-folded by go/types
	case token.VAR:
	default:
		c.fail(s.Pos(), "%s declaration inside function: unsupported", gd.Tok)
	}
	// compile the specs one after the other
	var specs []*ast.ValueSpec
	for _, sp := range gd.Specs {
		specs = append(specs, sp.(*ast.ValueSpec))
	}
	var do func(i int) string
	do = func(i int) string {
		if i == len(specs) {
			return rest()
		}
		vs := specs[i]
		next := memo(func() string { return do(i + 1) })
		if len(vs.Values) == 0 {
			out := ""
			for _, n := range vs.Names {
				if n.Name == "_" {
					continue
				}
				v := c.t.ld.Info.Defs[n].(*types.Var)
				g, ok := classify(v.Type())
				if !ok {
					c.fail(n.Pos(), "variable %s has unsupported type %s", n.Name, v.Type())
				}
				out += "let " + c.declare(v) + " := " + g.zero() + " in\n"
			}
			return out + next()
		}
		lhs := make([]ast.Expr, len(vs.Names))
		for j, n := range vs.Names {
			lhs[j] = n
		}
		return c.assignCore(vs.Pos(), lhs, vs.Values, true, next, cx)
	}
	return do(0)
}

func (c *fc) assign(s *ast.AssignStmt, rest func() string, cx *ctx) string {
	switch s.Tok {
	case token.ASSIGN, token.DEFINE:
		return c.assignCore(s.Pos(), s.Lhs, s.Rhs, s.Tok == token.DEFINE, rest, cx)
	}
	// op=
	if len(s.Lhs) != 1 || len(s.Rhs) != 1 {
		c.fail(s.Pos(), "malformed %s", s.Tok)
	}
	var op token.Token
	switch s.Tok {
	case token.ADD_ASSIGN:
		op = token.ADD
	case token.SUB_ASSIGN:
		op = token.SUB
	case token.MUL_ASSIGN:
		op = token.MUL
	case token.QUO_ASSIGN:
		op = token.QUO
	case token.REM_ASSIGN:
		op = token.REM
	case token.AND_ASSIGN:
		op = token.AND
	case token.OR_ASSIGN:
		op = token.OR
	case token.XOR_ASSIGN:
		op = token.XOR
	case token.AND_NOT_ASSIGN:
		op = token.AND_NOT
	case token.SHL_ASSIGN:
		op = token.SHL
	case token.SHR_ASSIGN:
		op = token.SHR
	default:
		c.fail(s.Pos(), "assignment operator %s: unsupported", s.Tok)
	}
	tg := c.lhsTarget(s.Lhs[0], false)
	if tg.blank || tg.g.k != kInt {
		c.fail(s.Pos(), "%s on non-integer", s.Tok)
	}
	var term string
	if op == token.SHL || op == token.SHR {
		term = c.shift(op, s.Lhs[0], s.Rhs[0], tg.g, s.Pos())
	} else {
		b, gb := c.expr(s.Rhs[0])
		if gb.k != kInt {
			c.fail(s.Pos(), "%s with non-integer operand", s.Tok)
		}
		term = c.arith(op, tg.g, tg.name, b, s.Rhs[0], s.Pos())
	}
	p := c.take()
	return c.wrap(p, "let "+tg.name+" := "+term+" in\n"+rest(), cx)
}

func (c *fc) assignCore(pos token.Pos, lhs, rhs []ast.Expr, define bool, rest func() string, cx *ctx) string {
	if len(rhs) == 1 && len(lhs) > 1 {
		call, ok := ast.Unparen(rhs[0]).(*ast.CallExpr)
		if !ok {
			c.fail(pos, "multi-value assignment from %s: unsupported", c.src(rhs[0]))
		}
		term, gs := c.call(call)
		if len(gs) != len(lhs) {
			c.fail(pos, "assignment count mismatch")
		}
		p := c.take()
		var pats []string
		for _, l := range lhs {
			pats = append(pats, c.lhsTarget(l, define).pat())
		}
		return c.wrap(p, "let '"+tupleTerm(pats)+" := "+term+" in\n"+rest(), cx)
	}
	if len(lhs) != len(rhs) {
		c.fail(pos, "assignment count mismatch")
	}
	// all right-hand sides are evaluated before any assignment
	var terms []string
	for i, r := range rhs {
		s, g := c.expr(r)
		_ = g
		_ = i
		terms = append(terms, s)
	}
	p := c.take()
	var pats []string
	for _, l := range lhs {
		pats = append(pats, c.lhsTarget(l, define).pat())
	}
	if len(lhs) == 1 {
		return c.wrap(p, "let "+pats[0]+" := "+terms[0]+" in\n"+rest(), cx)
	}
	return c.wrap(p, "let '"+tupleTerm(pats)+" := "+tupleTerm(terms)+" in\n"+rest(), cx)
}

func (c *fc) fieldFinals() []string {
	var out []string
	for _, fi := range c.f.fields {
		out = append(out, c.names[fi.v])
	}
	return out
}

func (c *fc) returnStmt(s *ast.ReturnStmt, cx *ctx) string {
	nres := c.f.sig.Results().Len()
	var parts []string
	prefix := ""
	switch {
	case len(s.Results) == 0:
		if nres > 0 && len(c.f.resultNames) == 0 {
			c.fail(s.Pos(), "internal: bare return without named results")
		}
		for _, rv := range c.f.resultNames {
			parts = append(parts, c.names[rv])
		}
	case len(s.Results) == 1 && nres > 1:
		call, ok := ast.Unparen(s.Results[0]).(*ast.CallExpr)
		if !ok {
			c.fail(s.Pos(), "return of multi-value %s: unsupported", c.src(s.Results[0]))
		}
		term, gs := c.call(call)
		if len(gs) != nres {
			c.fail(s.Pos(), "return count mismatch")
		}
		var pats []string
		for i := 0; i < nres; i++ {
			n := c.fresh(fmt.Sprintf("r%d", i))
			pats = append(pats, n)
			parts = append(parts, n)
		}
		prefix = "let '" + tupleTerm(pats) + " := " + term + " in\n"
	default:
		if len(s.Results) != nres {
			c.fail(s.Pos(), "return count mismatch")
		}
		for _, r := range s.Results {
			t, _ := c.expr(r)
			parts = append(parts, t)
		}
	}
	parts = append(parts, c.fieldFinals()...)
	p := c.take()
	body := prefix + cx.ret(c.wrapFull(tupleTerm(parts)))
	return c.wrap(p, body, cx)
}

func (c *fc) ifStmt(s *ast.IfStmt, rest func() string, cx *ctx) string {
	afterInit := func() string {
		cond, g := c.expr(s.Cond)
		if g.k != kBool {
			c.fail(s.Cond.Pos(), "non-bool condition")
		}
		p := c.take()
		thenT := c.stmts(s.Body.List, rest, cx)
		var elseT string
		switch e := s.Else.(type) {
		case nil:
			elseT = rest()
		case *ast.BlockStmt:
			elseT = c.stmts(e.List, rest, cx)
		case *ast.IfStmt:
			elseT = c.ifStmt(e, rest, cx)
		default:
			c.fail(s.Else.Pos(), "unsupported else branch")
		}
		body := "if " + cond + " then (\n" + indent(thenT) + "\n) else (\n" + indent(elseT) + "\n)"
		return c.wrap(p, body, cx)
	}
	if s.Init != nil {
		return c.stmt(s.Init, afterInit, cx)
	}
	return afterInit()
}

func (c *fc) switchStmt(s *ast.SwitchStmt, rest func() string, cx *ctx) string {
	afterInit := func() string {
		if s.Tag == nil {
			return cxSwitch(c, s, "", gty{}, rest, cx)
		}
		// the tag is evaluated exactly once, before any case expression
		tagTerm, g := c.expr(s.Tag)
		if g.k == kList {
			c.fail(s.Tag.Pos(), "switch on %s: unsupported", g.desc())
		}
		tagPre := c.take()
		tagName := c.fresh("tag")
		inner := cxSwitch(c, s, tagName, g, rest, cx)
		return c.wrap(tagPre, "let "+tagName+" := "+tagTerm+" in\n"+inner, cx)
	}
	if s.Init != nil {
		return c.stmt(s.Init, afterInit, cx)
	}
	return afterInit()
}

// cxSwitch compiles the clause chain of a switch.  Cases are tested top to
// bottom, values left to right; default runs only if nothing matched,
// wherever it is written.  `break` inside a clause continues after the switch.
func cxSwitch(c *fc, s *ast.SwitchStmt, tagName string, tagG gty, rest func() string, cx *ctx) string {
	inner := &ctx{ret: cx.ret, brk: rest, cont: cx.cont}
	var clauses []*ast.CaseClause
	var deflt *ast.CaseClause
	for _, st := range s.Body.List {
		cc := st.(*ast.CaseClause)
		for _, b := range cc.Body {
			if br, ok := b.(*ast.BranchStmt); ok && br.Tok == token.FALLTHROUGH {
				c.fail(br.Pos(), "fallthrough: unsupported")
			}
		}
		if cc.List == nil {
			deflt = cc
		} else {
			clauses = append(clauses, cc)
		}
	}
	var chain func(i int) string
	chain = func(i int) string {
		if i == len(clauses) {
			if deflt != nil {
				return c.stmts(deflt.Body, rest, inner)
			}
			return rest()
		}
		cc := clauses[i]
		// cond = v1-match || v2-match || ... with short-circuit guards
		var cond string
		for j, v := range cc.List {
			savedG := c.guards
			c.guards = nil
			if j > 0 {
				c.inSC++
			}
			var m string
			vt, vg := c.expr(v)
			if tagName == "" {
				if vg.k != kBool {
					c.fail(v.Pos(), "non-bool case in tagless switch")
				}
				m = vt
			} else {
				if vg.k != tagG.k {
					c.fail(v.Pos(), "case value kind differs from tag")
				}
				if tagG.k == kInt {
					m = "(Z.eqb " + tagName + " " + vt + ")"
				} else {
					m = "(Bool.eqb " + tagName + " " + vt + ")"
				}
			}
			if j > 0 {
				c.inSC--
			}
			vgs := c.guards
			c.guards = savedG
			if j == 0 {
				c.guards = append(c.guards, vgs...)
				cond = m
			} else {
				for _, g := range vgs {
					c.guards = append(c.guards, "(orb "+cond+" "+g+")")
				}
				cond = "(orb " + cond + " " + m + ")"
			}
		}
		p := c.take()
		if len(p.binders) > 0 && i > 0 {
			c.fail(cc.Pos(), "call to a fuelled function in a case expression: unsupported")
		}
		body := "if " + cond + " then (\n" + indent(c.stmts(cc.Body, rest, inner)) + "\n) else (\n" + indent(chain(i+1)) + "\n)"
		return c.wrap(p, body, cx)
	}
	return chain(0)
}

// ---------------------------------------------------------------- loops

type stateVar struct {
	v    *types.Var
	name string
	g    gty
}

// loopState: variables assigned in the loop that live outside its body.
func (c *fc) loopState(body *ast.BlockStmt, extra []ast.Node, also []*types.Var, exclude []*types.Var) []stateVar {
	nodes := append([]ast.Node{body}, extra...)
	assigned := c.t.assignedIn(nodes...)
	for _, v := range also {
		assigned[v] = true
	}
	for _, v := range exclude {
		delete(assigned, v)
	}
	var out []stateVar
	for v := range assigned {
		// declared inside the body: not state
		if v.Pos() >= body.Pos() && v.Pos() < body.End() && !v.IsField() {
			continue
		}
		n, ok := c.names[v]
		if !ok {
			// assigned but unknown: the assignment itself will be rejected when compiled
			continue
		}
		g, ok := classify(v.Type())
		if !ok {
			continue
		}
		out = append(out, stateVar{v, n, g})
	}
	sort.Slice(out, func(i, j int) bool {
		if out[i].v.Pos() != out[j].v.Pos() {
			return out[i].v.Pos() < out[j].v.Pos()
		}
		return out[i].name < out[j].name
	})
	return out
}

// canLeave reports whether code inside the loop statement can leave the
// function directly (value mode): a return, an explicit panic, or running out
// of fuel in a nested general loop or in a call to a fuelled function.
func (c *fc) canLeave(loop ast.Node) bool {
	found := false
	ast.Inspect(loop, func(n ast.Node) bool {
		if found {
			return false
		}
		switch x := n.(type) {
		case *ast.ReturnStmt:
			found = true
		case *ast.ForStmt:
			if x != loop {
				if _, counted := c.t.classifyFor(x); !counted {
					found = true
				}
			}
		case *ast.CallExpr:
			switch o := c.t.calleeObj(x).(type) {
			case *types.Builtin:
				if o.Name() == "panic" {
					found = true
				}
			case *types.Func:
				if g := c.t.byObj[o]; g != nil && (g.fuelled || g == c.f) {
					found = true
				}
			}
		}
		return !found
	})
	return found
}

// loopGen holds what the three loop forms share.
type loopGen struct {
	c       *fc
	state   []stateVar
	mayRet  bool
	general bool // result wrapped in option (fuel may run out)
	loop    string
}

func (lg *loopGen) stNames() []string {
	var out []string
	for _, s := range lg.state {
		out = append(out, s.name)
	}
	return out
}

func (lg *loopGen) stParams() string {
	var b strings.Builder
	for _, s := range lg.state {
		b.WriteString(" (" + s.name + " : " + s.g.coq() + ")")
	}
	return b.String()
}

func (lg *loopGen) stArgs() string {
	var b strings.Builder
	for _, s := range lg.state {
		b.WriteString(" " + s.name)
	}
	return b.String()
}

func (lg *loopGen) stType() string {
	var ps []string
	for _, s := range lg.state {
		ps = append(ps, s.g.coq())
	}
	return tupleType(ps)
}

func (lg *loopGen) resType() string {
	t := lg.stType()
	if lg.mayRet {
		t = "(option (" + lg.c.fullType() + ") * " + t + ")"
	}
	if lg.general {
		t = "option " + t
	}
	return t
}

func (lg *loopGen) exit() string {
	t := tupleTerm(lg.stNames())
	if lg.mayRet {
		t = "(None, " + t + ")"
	}
	if lg.general {
		t = "(Some " + t + ")"
	}
	return t
}

func (lg *loopGen) ret(full string) string {
	if !lg.mayRet {
		lg.c.fail(lg.c.f.decl.Pos(), "internal: return inside a loop analysed as return-free")
	}
	t := "(Some (" + full + "), " + tupleTerm(lg.stNames()) + ")"
	if lg.general {
		t = "(Some " + t + ")"
	}
	return t
}

// after: consume the loop result in the enclosing context.
func (lg *loopGen) after(loopApp string, rest func() string, cx *ctx) string {
	c := lg.c
	pat := tupleTerm(lg.stNames())
	switch {
	case !lg.general && !lg.mayRet:
		if len(lg.state) == 1 {
			return "let " + pat + " :=\n" + indent(loopApp) + " in\n" + rest()
		}
		return "let '" + pat + " :=\n" + indent(loopApp) + " in\n" + rest()
	case !lg.general && lg.mayRet:
		r := c.fresh("ret")
		return "match\n" + indent(loopApp) + "\nwith\n| (Some " + r + ", _) => " + cx.ret(r) +
			"\n| (None, " + pat + ") => (\n" + indent(rest()) + "\n  )\nend"
	case lg.general && !lg.mayRet:
		return "match\n" + indent(loopApp) + "\nwith\n| None => " + cx.ret(c.exhausted()) +
			"\n| Some " + pat + " => (\n" + indent(rest()) + "\n  )\nend"
	default:
		r := c.fresh("ret")
		return "match\n" + indent(loopApp) + "\nwith\n| None => " + cx.ret(c.exhausted()) +
			"\n| Some (Some " + r + ", _) => " + cx.ret(r) +
			"\n| Some (None, " + pat + ") => (\n" + indent(rest()) + "\n  )\nend"
	}
}

func (c *fc) loopMayRet(loop ast.Node) bool {
	if c.mode == ModeOk {
		return true // any guard failure leaves the function with false
	}
	return c.canLeave(loop)
}

func (c *fc) forStmt(s *ast.ForStmt, rest func() string, cx *ctx) string {
	shape, counted := c.t.classifyFor(s)
	// 1. init
	afterInit := func() string {
		lg := &loopGen{c: c, general: !counted}
		var also []*types.Var
		if counted {
			also = append(also, shape.iv)
		}
		var extra []ast.Node
		if s.Post != nil {
			extra = append(extra, s.Post)
		}
		lg.state = c.loopState(s.Body, extra, also, nil)
		lg.mayRet = c.loopMayRet(s)
		lg.loop = c.fresh("loop")
		fuelN := c.fresh("n")
		fuelN1 := fuelN + "'"
		c.used[fuelN1] = true

		// fuel at entry
		var fuelInit string
		var entryPre pre
		if counted {
			b, _ := c.expr(shape.bound)
			iv := c.names[shape.iv]
			switch shape.op {
			case token.LSS:
				fuelInit = "(Z.to_nat (" + b + " - " + iv + "))"
			case token.LEQ:
				fuelInit = "(Z.to_nat (" + b + " - " + iv + " + 1))"
				c.addGuard("loop_bound", s.Cond.Pos(), "(Z.ltb "+b+" (max_int "+shape.ity+"))",
					c.src(shape.bound)+" < max("+shape.ity+") (else i++ wraps and the loop never ends)")
			case token.GTR:
				fuelInit = "(Z.to_nat (" + iv + " - " + b + "))"
			case token.GEQ:
				fuelInit = "(Z.to_nat (" + iv + " - " + b + " + 1))"
				c.addGuard("loop_bound", s.Cond.Pos(), "(Z.ltb (min_int "+shape.ity+") "+b+")",
					c.src(shape.bound)+" > min("+shape.ity+") (else i-- wraps and the loop never ends)")
			}
			// The bound is loop-invariant and Go evaluates the condition at
			// least once, so its guards are checked here, at loop entry.
			entryPre = c.take()
		} else {
			if c.fuelVar == "" {
				c.fail(s.Pos(), "internal: general loop in a function without fuel")
			}
			fuelInit = c.fuelVar
		}

		lcx := &ctx{ret: lg.ret}
		recur := func() string { return "(" + lg.loop + " " + fuelN1 + lg.stArgs() + ")" }
		iter := memo(func() string {
			if s.Post == nil {
				return recur()
			}
			return c.stmt(s.Post, recur, &ctx{ret: lg.ret})
		})
		lcx.brk = func() string { return lg.exit() }
		lcx.cont = iter

		// condition + body
		var step string
		if s.Cond != nil {
			cond, g := c.expr(s.Cond)
			if g.k != kBool {
				c.fail(s.Cond.Pos(), "non-bool loop condition")
			}
			p := c.take()
			if len(p.binders) > 0 {
				c.fail(s.Cond.Pos(), "call to a fuelled function in a loop condition: unsupported")
			}
			bodyT := c.stmts(s.Body.List, iter, lcx)
			step = c.wrap(p, "if "+cond+" then (\n"+indent(bodyT)+"\n) else "+lg.exit(), lcx)
		} else {
			step = c.stmts(s.Body.List, iter, lcx)
		}
		atZero := lg.exit()
		if lg.general {
			atZero = "None"
		}
		fix := "(fix " + lg.loop + " (" + fuelN + " : nat)" + lg.stParams() + " {struct " + fuelN + "} : " + lg.resType() + " :=\n" +
			"   match " + fuelN + " with\n" +
			"   | O => " + atZero + "\n" +
			"   | S " + fuelN1 + " => (\n" + indent(indent(step)) + "\n     )\n" +
			"   end) " + fuelInit + lg.stArgs()
		return c.wrap(entryPre, lg.after(fix, rest, cx), cx)
	}
	if s.Init != nil {
		return c.stmt(s.Init, afterInit, cx)
	}
	return afterInit()
}

func (c *fc) rangeStmt(s *ast.RangeStmt, rest func() string, cx *ctx) string {
	if s.Tok == token.ASSIGN {
		c.fail(s.Pos(), "range with = (assignment to existing variables): unsupported, use :=")
	}
	xt := c.typeOf(s.X)
	gx, ok := classify(xt)
	if !ok {
		c.fail(s.X.Pos(), "range over %s: unsupported", xt)
	}
	rangeVar := func(e ast.Expr) *types.Var {
		if e == nil {
			return nil
		}
		id, ok := e.(*ast.Ident)
		if !ok {
			c.fail(e.Pos(), "range variable %s: unsupported", c.src(e))
		}
		if id.Name == "_" {
			return nil
		}
		v, _ := c.t.ld.Info.Defs[id].(*types.Var)
		if v == nil {
			c.fail(e.Pos(), "range variable %s is not newly declared", id.Name)
		}
		return v
	}
	keyV := rangeVar(s.Key)
	valV := rangeVar(s.Value)
	assigned := c.t.assignedIn(s.Body)
	if (keyV != nil && assigned[keyV]) || (valV != nil && assigned[valV]) {
		c.fail(s.Pos(), "assignment to a range variable inside the loop: unsupported")
	}

	lg := &loopGen{c: c}
	lg.state = c.loopState(s.Body, nil, nil, nil)
	lg.mayRet = c.loopMayRet(s)
	lg.loop = c.fresh("loop")

	switch {
	case gx.k == kInt:
		// for i := range n
		if s.Value != nil {
			c.fail(s.Pos(), "range over integer with two variables")
		}
		n, _ := c.expr(s.X)
		p := c.take()
		var iName string
		if keyV != nil {
			iName = c.declare(keyV)
		} else {
			iName = c.fresh("i")
		}
		cnt := c.fresh("n")
		cnt1 := cnt + "'"
		c.used[cnt1] = true
		recur := func() string {
			return "(" + lg.loop + " " + cnt1 + " (add " + gx.ity + " " + iName + " 1)" + lg.stArgs() + ")"
		}
		lcx := &ctx{ret: lg.ret, brk: func() string { return lg.exit() }, cont: recur}
		bodyT := c.stmts(s.Body.List, recur, lcx)
		fix := "(fix " + lg.loop + " (" + cnt + " : nat) (" + iName + " : Z)" + lg.stParams() + " {struct " + cnt + "} : " + lg.resType() + " :=\n" +
			"   match " + cnt + " with\n" +
			"   | O => " + lg.exit() + "\n" +
			"   | S " + cnt1 + " => (\n" + indent(indent(bodyT)) + "\n     )\n" +
			"   end) (Z.to_nat " + n + ") 0" + lg.stArgs()
		return c.wrap(p, lg.after(fix, rest, cx), cx)
	case gx.k == kList:
		if b, isBasic := xt.Underlying().(*types.Basic); isBasic && b.Info()&types.IsString != 0 {
			c.fail(s.X.Pos(), "range over string iterates runes (UTF-8 decoding): unsupported; range over []byte is supported")
		}
		xs, _ := c.expr(s.X)
		p := c.take()
		if len(p.binders) > 0 {
			c.fail(s.X.Pos(), "fuelled call in range expression: unsupported")
		}
		var iName, xName string
		if keyV != nil {
			iName = c.declare(keyV)
		} else {
			iName = c.fresh("i")
		}
		if valV != nil {
			xName = c.declare(valV)
		} else {
			xName = c.fresh("x")
		}
		l := c.fresh("l")
		l1 := l + "'"
		c.used[l1] = true
		recur := func() string {
			return "(" + lg.loop + " " + l1 + " (add I64 " + iName + " 1)" + lg.stArgs() + ")"
		}
		lcx := &ctx{ret: lg.ret, brk: func() string { return lg.exit() }, cont: recur}
		bodyT := c.stmts(s.Body.List, recur, lcx)
		fix := "(fix " + lg.loop + " (" + l + " : list Z) (" + iName + " : Z)" + lg.stParams() + " {struct " + l + "} : " + lg.resType() + " :=\n" +
			"   match " + l + " with\n" +
			"   | nil => " + lg.exit() + "\n" +
			"   | " + xName + " :: " + l1 + " => (\n" + indent(indent(bodyT)) + "\n     )\n" +
			"   end) " + xs + " 0" + lg.stArgs()
		return c.wrap(p, lg.after(fix, rest, cx), cx)
	}
	c.fail(s.X.Pos(), "range over %s: unsupported", xt)
	panic("unreachable")
}
