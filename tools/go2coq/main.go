// go2coq translates a small pure subset ("G0") of Go to Gallina (Coq 8.16).
// See README.md for the subset, the CLI, the config format and what is trusted.
package main

import (
	"crypto/sha256"
	"encoding/json"
	"flag"
	"fmt"
	"os"
	"path/filepath"
	"strings"
)

type OracleCfg struct {
	Arity   int   `json:"arity"`
	PosArgs []int `json:"pos_args"` // argument indices that must be > 0, else the Go call panics
}

type AbstractCfg struct {
	As   string `json:"as"`
	Expr string `json:"expr"`
	Make string `json:"make"` // harness only: Go function (in the package) building a value of the parameter type from the integer
}

type HarnessCfg struct {
	// ranges[func][coq param name] = [lo, hi]: for integers the value range,
	// for lists the length range.
	Ranges map[string]map[string][2]int64 `json:"ranges"`
	Fuel   int                            `json:"fuel"`
	// OracleHook names a function `func(lines []int, vals []int64)` of the
	// package under test that scripts the (stubbed) oracle: the call on source
	// line lines[i] returns vals[i].
	OracleHook string `json:"oracle_hook"`
}

type Config struct {
	Oracles         map[string]OracleCfg              `json:"oracles"`
	Fields          map[string][]string               `json:"fields"`
	AbstractParams  map[string]map[string]AbstractCfg `json:"abstract_params"`
	AssumeConstVars []string                          `json:"assume_const_vars"`
	Harness         HarnessCfg                        `json:"harness"`
}

func sha256hex(s string) string { return fmt.Sprintf("%x", sha256.Sum256([]byte(s))) }

func splitFuncs(s string) []string {
	// commas separate names; names themselves contain no commas
	var out []string
	for _, p := range strings.Split(s, ",") {
		p = strings.TrimSpace(p)
		if p != "" {
			out = append(out, p)
		}
	}
	return out
}

func main() {
	dir := flag.String("dir", ".", "package directory")
	tags := flag.String("tags", "", "build tags")
	module := flag.String("module", "", "Coq module name (must equal the base name of -o without .v)")
	out := flag.String("o", "", "output .v file (a manifest <out>.json is written next to it)")
	funcs := flag.String("funcs", "", "comma-separated functions: F, (T).M, (*T).M or T.M")
	cfgPath := flag.String("config", "", "JSON config (oracles, fields, abstract_params, assume_const_vars, harness)")
	harness := flag.String("harness", "", "also write a Go validation harness (package-internal file) to this path")
	rejectList := flag.String("reject-list", "", "testing aid: file with lines `funcs|config|substring`; each entry must be refused with a message containing the substring (package loaded once; nothing is written)")
	flag.Parse()
	if *rejectList != "" {
		os.Exit(runRejectList(*dir, *tags, *rejectList))
	}
	if err := run(*dir, *tags, *module, *out, *funcs, *cfgPath, *harness); err != nil {
		fmt.Fprintln(os.Stderr, "go2coq: error:", err)
		os.Exit(1)
	}
}

func readConfig(cfgPath string) (*Config, error) {
	cfg := &Config{}
	if cfgPath != "" {
		data, err := os.ReadFile(cfgPath)
		if err != nil {
			return nil, err
		}
		dec := json.NewDecoder(strings.NewReader(string(data)))
		dec.DisallowUnknownFields()
		if err := dec.Decode(cfg); err != nil {
			return nil, fmt.Errorf("config %s: %v", cfgPath, err)
		}
	}
	return cfg, nil
}

// runRejectList: every entry must fail to translate, with the expected message.
func runRejectList(dir, tags, list string) int {
	data, err := os.ReadFile(list)
	if err != nil {
		fmt.Fprintln(os.Stderr, "go2coq: error:", err)
		return 1
	}
	ld, err := loadPackage(dir, tags)
	if err != nil {
		fmt.Fprintln(os.Stderr, "go2coq: error:", err)
		return 1
	}
	bad := 0
	for _, line := range strings.Split(string(data), "\n") {
		line = strings.TrimSpace(line)
		if line == "" || strings.HasPrefix(line, "#") {
			continue
		}
		parts := strings.SplitN(line, "|", 3)
		if len(parts) != 3 {
			fmt.Printf("FAIL reject: malformed line %q\n", line)
			bad++
			continue
		}
		cfgPath := ""
		if parts[1] != "" {
			cfgPath = filepath.Join(filepath.Dir(list), parts[1])
		}
		err := func() error {
			cfg, err := readConfig(cfgPath)
			if err != nil {
				return err
			}
			tr, err := NewTranslator(ld, cfg, splitFuncs(parts[0]))
			if err != nil {
				return err
			}
			return tr.Translate()
		}()
		switch {
		case err == nil:
			fmt.Printf("FAIL reject %s: was accepted\n", parts[0])
			bad++
		case !strings.Contains(err.Error(), parts[2]):
			fmt.Printf("FAIL reject %s: refused with an unexpected message: %v (wanted: %s)\n", parts[0], err, parts[2])
			bad++
		default:
			fmt.Printf("OK reject %s (%s)\n", parts[0], parts[2])
		}
	}
	if bad > 0 {
		return 1
	}
	return 0
}

func run(dir, tags, module, out, funcs, cfgPath, harness string) error {
	if out == "" || funcs == "" {
		return fmt.Errorf("-o and -funcs are required")
	}
	base := strings.TrimSuffix(filepath.Base(out), ".v")
	if module == "" {
		module = base
	}
	if module != base || !strings.HasSuffix(out, ".v") {
		return fmt.Errorf("-module %s does not match output file %s (Coq derives the module name from the file name)", module, out)
	}
	cfg, err := readConfig(cfgPath)
	if err != nil {
		return err
	}
	ld, err := loadPackage(dir, tags)
	if err != nil {
		return err
	}
	tr, err := NewTranslator(ld, cfg, splitFuncs(funcs))
	if err != nil {
		return err
	}
	if err := tr.Translate(); err != nil {
		return err
	}
	if _, err := writeIfChanged(out, []byte(tr.CoqText(module))); err != nil {
		return err
	}
	if _, err := writeIfChanged(out+".json", tr.Manifest(module)); err != nil {
		return err
	}
	if harness != "" {
		src, err := tr.Harness(module)
		if err != nil {
			return err
		}
		if _, err := writeIfChanged(harness, src); err != nil {
			return err
		}
	}
	return nil
}
