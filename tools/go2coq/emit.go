package main

import (
	"bytes"
	"encoding/json"
	"fmt"
	"go/ast"
	"go/types"
	"os"
	"sort"
	"strings"
)

// ---------------------------------------------------------------- prepasses

// numberOracles numbers the oracle call sites of f in source order and
// reserves parameters for the oracles of translated callees (one set per call
// site).  Call sites inside loops and in recursive functions are rejected:
// each dynamic call needs its own draw.
func (t *Translator) numberOracles(f *Func) {
	depth := 0
	var stack []ast.Node
	ast.Inspect(f.decl.Body, func(n ast.Node) bool {
		if n == nil {
			top := stack[len(stack)-1]
			stack = stack[:len(stack)-1]
			switch top.(type) {
			case *ast.ForStmt, *ast.RangeStmt:
				depth--
			}
			return true
		}
		stack = append(stack, n)
		switch x := n.(type) {
		case *ast.ForStmt, *ast.RangeStmt:
			depth++
		case *ast.FuncLit:
			t.failf(x.Pos(), "function literal: unsupported")
		case *ast.CallExpr:
			fo, ok := t.calleeObj(x).(*types.Func)
			if !ok {
				return true
			}
			add := func(s *OracleSite) {
				if depth > 0 {
					t.failf(x.Pos(), "oracle %s called inside a loop: every iteration needs its own draw; unsupported", s.GoFunc)
				}
				if f.recursive {
					t.failf(x.Pos(), "oracle %s called in a recursive function: unsupported", s.GoFunc)
				}
				s.Index = len(f.oracles)
				s.Name = fmt.Sprintf("oracle_%d", s.Index)
				s.call = x
				f.oracles = append(f.oracles, s)
				f.oracleAt[x] = append(f.oracleAt[x], s)
			}
			if oc, ok := t.cfg.Oracles[fo.FullName()]; ok {
				sig := fo.Type().(*types.Signature)
				if sig.Results().Len() != 1 {
					t.failf(x.Pos(), "oracle %s must have exactly one result", fo.FullName())
				}
				g, ok := classify(sig.Results().At(0).Type())
				if !ok || g.k == kList {
					t.failf(x.Pos(), "oracle %s has unsupported result type %s", fo.FullName(), sig.Results().At(0).Type())
				}
				add(&OracleSite{GoFunc: fo.FullName(), Pos: x.Pos(), Ty: g, goT: sig.Results().At(0).Type(), PosArgs: oc.PosArgs})
			} else if g := t.byObj[fo]; g != nil && g != f {
				for j, gs := range g.oracles {
					add(&OracleSite{GoFunc: gs.GoFunc, Pos: x.Pos(), Ty: gs.Ty, goT: gs.goT, Via: g, ViaIndex: j, PosArgs: gs.PosArgs})
				}
			}
		}
		return true
	})
}

// findTables registers (and names) every package-level aggregate used by f
// before any function is compiled, so local names never collide with them.
func (t *Translator) findTables(f *Func) {
	ast.Inspect(f.decl.Body, func(n ast.Node) bool {
		id, ok := n.(*ast.Ident)
		if !ok {
			return true
		}
		v, ok := t.ld.Info.Uses[id].(*types.Var)
		if !ok || v.Parent() != t.ld.Pkg.Scope() {
			return true
		}
		if g, ok := classify(v.Type()); ok && g.k == kList {
			if _, isStr := v.Type().Underlying().(*types.Basic); !isStr {
				t.table(v, id.Pos())
			}
		}
		return true
	})
}

// ---------------------------------------------------------------- one function

func (t *Translator) compileFunc(f *Func, mode Mode) string {
	c := &fc{t: t, f: f, mode: mode, names: map[types.Object]string{}, used: map[string]bool{}}
	var params []Param
	if f.fuelled {
		c.fuelVar = "fuel"
		c.selfFuel = "fuel'"
		params = append(params, Param{Kind: PKFuel, Name: "fuel", GoName: "", GoType: "", IsNat: true})
	}
	for _, s := range f.oracles {
		c.used[s.Name] = true
	}
	sp := f.sig.Params()
	for i := 0; i < sp.Len(); i++ {
		pv := sp.At(i)
		var ap *absParam
		for _, a := range f.abstract {
			if a.obj == pv {
				ap = a
			}
		}
		if ap != nil {
			ap.name = c.fresh(ap.as)
			params = append(params, Param{Kind: PKAbstract, Name: ap.name, GoName: pv.Name(),
				GoType: types.TypeString(pv.Type(), t.qualifier), Ty: ap.ty, obj: pv, goT: pv.Type(), AbsExpr: ap.expr, AbsMake: ap.mk})
			continue
		}
		g, ok := classify(pv.Type())
		if !ok {
			t.failf(pv.Pos(), "parameter %s of %s has unsupported type %s (use abstract_params if it is only used through one integer expression)", pv.Name(), f.GoName, pv.Type())
		}
		var name string
		if pv.Name() == "" || pv.Name() == "_" {
			name = c.fresh("arg")
		} else {
			name = c.declare(pv)
		}
		params = append(params, Param{Kind: PKParam, Name: name, GoName: pv.Name(),
			GoType: types.TypeString(pv.Type(), t.qualifier), Ty: g, obj: pv, goT: pv.Type()})
	}
	for _, fi := range f.fields {
		name := c.declare(fi.v)
		params = append(params, Param{Kind: PKField, Name: name, GoName: fi.name,
			GoType: types.TypeString(fi.v.Type(), t.qualifier), Ty: fi.ty, obj: fi.v, goT: fi.v.Type()})
	}
	for _, s := range f.oracles {
		params = append(params, Param{Kind: PKOracle, Name: s.Name, GoName: s.GoFunc,
			GoType: types.TypeString(s.goT, t.qualifier), Ty: s.Ty, goT: s.goT, Oracle: s})
	}
	if mode == ModeVal {
		f.Params = params
	}

	top := &ctx{ret: func(full string) string { return full }}
	fallOff := func() string {
		if f.sig.Results().Len() == 0 {
			return c.wrapFull(tupleTerm(c.fieldFinals()))
		}
		if len(f.resultNames) > 0 {
			// Unreachable in Go (a function with results ends in a terminating
			// statement); any value of the right type will do.
		}
		if mode == ModeOk {
			return "true"
		}
		return c.wrapFull(c.defaultValue())
	}
	pre := ""
	for _, rv := range f.resultNames {
		if rv.Name() == "_" {
			t.failf(rv.Pos(), "blank named result: unsupported")
		}
		g, _ := classify(rv.Type())
		pre += "let " + c.declare(rv) + " := " + g.zero() + " in\n"
	}
	body := pre + c.stmts(f.decl.Body.List, fallOff, top)
	c.assertClean(f.decl.End())
	if mode == ModeOk && f.trivialOk {
		body = "true" // no division, index, shift, panic, oracle or fuel anywhere
	}

	var sig strings.Builder
	for _, p := range params {
		ty := p.Ty.coq()
		if p.IsNat {
			ty = "nat"
		}
		fmt.Fprintf(&sig, " (%s : %s)", p.Name, ty)
	}
	name := f.CoqName
	if mode == ModeOk {
		name = f.OkName
	}
	if f.recursive {
		return "Fixpoint " + name + sig.String() + " {struct fuel} : " + c.fullType() + " :=\n" +
			"  match fuel with\n  | O => " + c.exhausted() + "\n  | S fuel' => (\n" + indent(indent(body)) + "\n    )\n  end."
	}
	return "Definition " + name + sig.String() + " : " + c.fullType() + " :=\n" + indent(body) + "."
}

// ---------------------------------------------------------------- whole file

func (t *Translator) Translate() (err error) {
	defer func() {
		if r := recover(); r != nil {
			if te, ok := r.(*transErr); ok {
				err = fmt.Errorf("%s: %s", t.posStr(te.pos), te.msg)
				return
			}
			panic(r)
		}
	}()
	for _, f := range t.funcs {
		t.findTables(f)
	}
	for _, f := range t.funcs { // topological order: callees first
		t.numberOracles(f)
		f.valText = t.compileFunc(f, ModeVal)
		f.trivialOk = !f.fuelled && len(f.sideconds) == 0
		f.okText = t.compileFunc(f, ModeOk)
		sort.SliceStable(f.sideconds, func(i, j int) bool { return f.sideconds[i].Pos < f.sideconds[j].Pos })
	}
	return nil
}

func (t *Translator) CoqText(module string) string {
	var b bytes.Buffer
	b.WriteString("From Coq Require Import ZArith Bool List.\nFrom V Require Import lib.GoInt.\nOpen Scope Z_scope.\n\n")
	fmt.Fprintf(&b, "(* Module %s: generated by go2coq from package %s. DO NOT EDIT. *)\n", module, t.ld.PkgPath)
	tabs := append([]*Table(nil), t.tabList...)
	sort.Slice(tabs, func(i, j int) bool { return tabs[i].CoqName < tabs[j].CoqName })
	for _, tb := range tabs {
		fmt.Fprintf(&b, "\n(* Go: var %s (%d elements of %s) at %s *)\n", tb.v.Name(), len(tb.elems), tb.ty.ity, t.posStr(tb.pos))
		fmt.Fprintf(&b, "Definition %s : list Z :=\n  (", tb.CoqName)
		for i, e := range tb.elems {
			b.WriteString(e + " :: ")
			if i%8 == 7 {
				b.WriteString("\n   ")
			}
		}
		b.WriteString("nil).\n")
	}
	for _, f := range t.funcs {
		fmt.Fprintf(&b, "\n(* Go: %s at %s *)\n(* source SHA-256: %s *)\n", coqComment(f.GoName), t.posStr(f.decl.Pos()), f.SrcSHA)
		b.WriteString(f.valText)
		b.WriteString("\n\n")
		fmt.Fprintf(&b, "(* %s: true iff %s does not panic on these arguments *)\n", f.OkName, coqComment(f.GoName))
		b.WriteString(f.okText)
		b.WriteString("\n")
	}
	return b.String()
}

// coqComment makes a string safe inside a Coq comment (comments nest, and
// string quotes inside comments must balance).
func coqComment(s string) string {
	s = strings.ReplaceAll(s, "(*", "( *")
	s = strings.ReplaceAll(s, "*)", "* )")
	return strings.ReplaceAll(s, "\"", "'")
}

// ---------------------------------------------------------------- manifest

type jParam struct {
	Kind    string `json:"kind"`
	Name    string `json:"name"`
	GoName  string `json:"go_name,omitempty"`
	GoType  string `json:"go_type,omitempty"`
	CoqType string `json:"coq_type"`
	Ity     string `json:"ity,omitempty"`
	Expr    string `json:"expr,omitempty"`
}

type jResult struct {
	Kind    string `json:"kind"`
	GoName  string `json:"go_name,omitempty"`
	GoType  string `json:"go_type"`
	CoqType string `json:"coq_type"`
	Ity     string `json:"ity,omitempty"`
}

type jSide struct {
	Kind string `json:"kind"`
	Pos  string `json:"pos"`
	Coq  string `json:"coq"`
	Go   string `json:"go"`
}

type jOracle struct {
	Name   string   `json:"name"`
	Func   string   `json:"func"`
	Pos    string   `json:"pos"`
	Line   int      `json:"line"`
	Args   []string `json:"args"`
	Via    string   `json:"via,omitempty"`
	ViaIdx int      `json:"via_index,omitempty"`
}

type jFunc struct {
	Go        string    `json:"go"`
	Coq       string    `json:"coq"`
	CoqOk     string    `json:"coq_ok"`
	Pos       string    `json:"pos"`
	SrcSHA    string    `json:"source_sha256"`
	CoqSHA    string    `json:"coq_sha256"`
	Fuelled   bool      `json:"fuelled"`
	Recursive bool      `json:"recursive"`
	Params    []jParam  `json:"params"`
	Results   []jResult `json:"results"`
	CoqResult string    `json:"coq_result_type"`
	Oracles   []jOracle `json:"oracles"`
	SideConds []jSide   `json:"side_conditions"`
	Calls     []string  `json:"calls"`
}

type jTable struct {
	Go  string `json:"go"`
	Coq string `json:"coq"`
	Len int    `json:"len"`
	Ity string `json:"ity"`
	Pos string `json:"pos"`
}

type jManifest struct {
	Module    string   `json:"module"`
	Package   string   `json:"package"`
	Tables    []jTable `json:"tables"`
	Functions []jFunc  `json:"functions"`
}

func (t *Translator) Manifest(module string) []byte {
	m := jManifest{Module: module, Package: t.ld.PkgPath, Tables: []jTable{}, Functions: []jFunc{}}
	tabs := append([]*Table(nil), t.tabList...)
	sort.Slice(tabs, func(i, j int) bool { return tabs[i].CoqName < tabs[j].CoqName })
	for _, tb := range tabs {
		m.Tables = append(m.Tables, jTable{tb.v.Name(), tb.CoqName, len(tb.elems), tb.ty.ity, t.posStr(tb.pos)})
	}
	for _, f := range t.funcs {
		jf := jFunc{Go: f.GoName, Coq: f.CoqName, CoqOk: f.OkName, Pos: t.posStr(f.decl.Pos()), SrcSHA: f.SrcSHA,
			CoqSHA: sha256hex(f.valText + "\n" + f.okText), Fuelled: f.fuelled, Recursive: f.recursive,
			Params: []jParam{}, Results: []jResult{}, Oracles: []jOracle{}, SideConds: []jSide{}, Calls: []string{}}
		for _, p := range f.Params {
			jp := jParam{Kind: string(p.Kind), Name: p.Name, GoName: p.GoName, GoType: p.GoType, CoqType: p.Ty.coq(), Expr: p.AbsExpr}
			if p.IsNat {
				jp.CoqType = "nat"
			} else if p.Ty.k != kBool {
				jp.Ity = p.Ty.ity
			}
			jf.Params = append(jf.Params, jp)
		}
		for _, r := range f.Results {
			jr := jResult{Kind: r.Kind, GoName: r.GoName, GoType: r.GoType, CoqType: r.Ty.coq()}
			if r.Ty.k != kBool {
				jr.Ity = r.Ty.ity
			}
			jf.Results = append(jf.Results, jr)
		}
		jf.CoqResult = f.valueType()
		if f.fuelled {
			jf.CoqResult = "option " + jf.CoqResult
		}
		for _, s := range f.oracles {
			jo := jOracle{Name: s.Name, Func: s.GoFunc, Pos: t.posStr(s.Pos), Line: t.ld.Fset.Position(s.Pos).Line, Args: s.Args}
			if jo.Args == nil {
				jo.Args = []string{}
			}
			if s.Via != nil {
				jo.Via = s.Via.GoName
				jo.ViaIdx = s.ViaIndex
			}
			jf.Oracles = append(jf.Oracles, jo)
		}
		for _, sc := range f.sideconds {
			jf.SideConds = append(jf.SideConds, jSide{sc.Kind, t.posStr(sc.Pos), sc.Coq, sc.Go})
		}
		for _, g := range f.callees {
			jf.Calls = append(jf.Calls, g.GoName)
		}
		if f.recursive {
			jf.Calls = append(jf.Calls, f.GoName)
		}
		m.Functions = append(m.Functions, jf)
	}
	out, err := json.MarshalIndent(m, "", "  ")
	if err != nil {
		panic(err)
	}
	return append(out, '\n')
}

// writeIfChanged keeps mtime stable when nothing changed (for make).
func writeIfChanged(path string, data []byte) (bool, error) {
	old, err := os.ReadFile(path)
	if err == nil && bytes.Equal(old, data) {
		return false, nil
	}
	tmp := path + ".tmp"
	if err := os.WriteFile(tmp, data, 0o644); err != nil {
		return false, err
	}
	return true, os.Rename(tmp, path)
}
