package main

// Translation of the G0 subset of Go to Gallina.  See README.md.
//
// Design in one paragraph: every statement list is compiled with an explicit
// continuation ("what happens after falling off the end"), so early returns
// are compiled by continuation duplication
//
//	compile(if c {A} else {B}; rest) = if c then compile(A; rest) else compile(B; rest)
//
// Go variables are Coq variables with one Coq name per Go object (types.Object)
// and assignment is shadowing by a new `let` of the same name, which is right
// because every later use sits textually inside that `let`.  Loops are local
// `fix`es over a nat (fuel / count) or over the ranged list whose parameters
// are exactly the variables assigned in the loop; break/continue/return are
// continuations too.  The function is compiled twice: in value mode (F) and
// in ok mode (F_ok : bool, true iff no Go panic on that input), where a guard
// failure is an early `return false` and a Go `return` is `return true`.

import (
	"crypto/sha256"
	"fmt"
	"go/ast"
	"go/constant"
	"go/parser"
	"go/token"
	"go/types"
	"sort"
	"strings"
)

type Mode int

const (
	ModeVal Mode = iota
	ModeOk
)

type transErr struct {
	pos token.Pos
	msg string
}

// ---------------------------------------------------------------- types

type kind int

const (
	kInt kind = iota
	kBool
	kList
)

type gty struct {
	k   kind
	ity string // kInt: the integer type; kList: element integer type
}

func (g gty) coq() string {
	switch g.k {
	case kInt:
		return "Z"
	case kBool:
		return "bool"
	default:
		return "list Z"
	}
}

func (g gty) zero() string {
	switch g.k {
	case kInt:
		return "0"
	case kBool:
		return "false"
	default:
		return "(@nil Z)"
	}
}

func (g gty) desc() string {
	switch g.k {
	case kInt:
		return g.ity
	case kBool:
		return "bool"
	default:
		return "list " + g.ity
	}
}

func basicIty(b *types.Basic) (string, bool) {
	switch b.Kind() {
	case types.Int8:
		return "I8", true
	case types.Int16:
		return "I16", true
	case types.Int32, types.UntypedRune:
		return "I32", true
	case types.Int64, types.Int, types.UntypedInt:
		return "I64", true
	case types.Uint8:
		return "U8", true
	case types.Uint16:
		return "U16", true
	case types.Uint32:
		return "U32", true
	case types.Uint64, types.Uint, types.Uintptr:
		return "U64", true
	}
	return "", false
}

func itySigned(ity string) bool { return ity[0] == 'I' }

// classify maps a Go type to its G0 model type.
func classify(t types.Type) (gty, bool) {
	if t == nil {
		return gty{}, false
	}
	if _, isTP := t.(*types.TypeParam); isTP {
		return gty{}, false
	}
	switch u := t.Underlying().(type) {
	case *types.Basic:
		if ity, ok := basicIty(u); ok {
			return gty{kInt, ity}, true
		}
		switch u.Kind() {
		case types.Bool, types.UntypedBool:
			return gty{kBool, ""}, true
		case types.String, types.UntypedString:
			return gty{kList, "U8"}, true
		}
	case *types.Slice:
		if e, ok := classify(u.Elem()); ok && e.k == kInt {
			return gty{kList, e.ity}, true
		}
	case *types.Array:
		if e, ok := classify(u.Elem()); ok && e.k == kInt {
			return gty{kList, e.ity}, true
		}
	}
	return gty{}, false
}

// ---------------------------------------------------------------- data

type ParamKind string

const (
	PKFuel     ParamKind = "fuel"
	PKParam    ParamKind = "param"
	PKAbstract ParamKind = "abstract"
	PKField    ParamKind = "field"
	PKOracle   ParamKind = "oracle"
)

type Param struct {
	Kind    ParamKind
	Name    string // Coq name
	GoName  string
	GoType  string
	Ty      gty
	IsNat   bool
	obj     types.Object
	goT     types.Type
	AbsExpr string
	AbsMake string
	Oracle  *OracleSite
}

type Result struct {
	Kind   string // "result" or "field"
	GoName string
	GoType string
	Ty     gty
	goT    types.Type
}

type OracleSite struct {
	Index      int
	Name       string // oracle_k
	GoFunc     string // full name of the oracle function
	Pos        token.Pos
	Ty         gty
	goT        types.Type
	Args       []string // translated argument terms (filled during compile)
	PosArgs    []int
	Via        *Func // non-nil: belongs to a call of this translated callee
	ViaIndex   int
	call       *ast.CallExpr
	argsFilled bool
}

type SideCond struct {
	Kind string
	Pos  token.Pos
	Coq  string
	Go   string
}

type absParam struct {
	obj   *types.Var
	as    string
	expr  string // canonical ExprString
	mk    string
	name  string // Coq name
	ty    gty
	goT   types.Type
	found bool
}

type fieldInfo struct {
	name string
	v    *types.Var
	ty   gty
}

type Func struct {
	GoName  string
	CoqName string
	OkName  string
	decl    *ast.FuncDecl
	obj     *types.Func
	sig     *types.Signature
	recv    *types.Var
	recvPtr bool

	fields   []fieldInfo
	abstract []*absParam

	callees    []*Func
	recursive  bool
	hasGenLoop bool
	fuelled    bool
	trivialOk  bool // not fuelled and no side condition at all: F_ok is constant true

	oracles     []*OracleSite
	oracleAt    map[*ast.CallExpr][]*OracleSite
	Params      []Param
	Results     []Result
	sideconds   []SideCond
	scSeen      map[string]bool
	SrcSHA      string
	valText     string
	okText      string
	resultNames []*types.Var // named results (nil entries impossible: all or none)
}

type Table struct {
	v       *types.Var
	CoqName string
	elems   []string
	ty      gty
	pos     token.Pos
}

type Translator struct {
	ld      *Loaded
	cfg     *Config
	funcs   []*Func
	byObj   map[*types.Func]*Func
	tables  map[*types.Var]*Table
	tabList []*Table
	globals map[string]bool
	pkgVars map[*types.Var]*pkgVarInfo
	parents map[ast.Node]ast.Node // lazily built for package-level var analysis
}

type pkgVarInfo struct {
	spec     *ast.ValueSpec
	idx      int
	readonly bool
	why      string
}

// ---------------------------------------------------------------- names

var reservedNames = func() map[string]bool {
	m := map[string]bool{}
	for _, s := range strings.Fields(`
as at cofix else end exists exists2 fix for forall fun if IF in let match mod return then using where with
Prop Set Type SProp Definition Fixpoint Lemma Theorem Proof Qed
Z bool list nat option unit prod pair fst snd tt Some None true false nil cons app O S
andb orb negb implb xorb length nth firstn skipn
ity I8 I16 I32 I64 U8 U16 U32 U64 bits signed modulus half min_int max_int wrap in_range in_rangeb
add sub mul quo rem quo_ok and_ or_ xor andnot shl shr shift_ok neg not_ conv index_ok
bitlen len8 len16 len32 len64 len_ trailing_zeros trailing_zeros8 trailing_zeros16 trailing_zeros32
trailing_zeros64 trailing_zeros_ leading_zeros list_eqb fuel
`) {
		m[s] = true
	}
	return m
}()

func sanitize(s string) string {
	var b strings.Builder
	for i, r := range s {
		ok := r == '_' || (r >= 'a' && r <= 'z') || (r >= 'A' && r <= 'Z') || (i > 0 && r >= '0' && r <= '9')
		if ok {
			b.WriteRune(r)
		} else {
			fmt.Fprintf(&b, "_u%x_", r)
		}
	}
	out := b.String()
	if out == "" || out == "_" {
		out = "v_"
	}
	return out
}

// ---------------------------------------------------------------- setup

func (t *Translator) failf(pos token.Pos, format string, args ...any) {
	panic(&transErr{pos, fmt.Sprintf(format, args...)})
}

func (t *Translator) posStr(pos token.Pos) string {
	p := t.ld.Fset.Position(pos)
	return fmt.Sprintf("%s:%d:%d", relPath(t.ld.Dir, p.Filename), p.Line, p.Column)
}

func relPath(dir, file string) string {
	if strings.HasPrefix(file, dir+"/") {
		return file[len(dir)+1:]
	}
	return file
}

// goFuncName returns the canonical name of a FuncDecl: F, (T).M or (*T).M.
func goFuncName(d *ast.FuncDecl) (canon, typeName string, ptr bool) {
	if d.Recv == nil || len(d.Recv.List) == 0 {
		return d.Name.Name, "", false
	}
	rt := d.Recv.List[0].Type
	if st, ok := rt.(*ast.StarExpr); ok {
		ptr = true
		rt = st.X
	}
	// strip type parameters of generic receivers
	switch x := rt.(type) {
	case *ast.IndexExpr:
		rt = x.X
	case *ast.IndexListExpr:
		rt = x.X
	}
	id, ok := rt.(*ast.Ident)
	if !ok {
		return d.Name.Name, "?", ptr
	}
	if ptr {
		return "(*" + id.Name + ")." + d.Name.Name, id.Name, true
	}
	return "(" + id.Name + ")." + d.Name.Name, id.Name, false
}

func normalizeFuncKey(s string) string {
	s = strings.TrimSpace(s)
	return s
}

// findDecl resolves a user-supplied name: "F", "(T).M", "(*T).M" or "T.M".
func (t *Translator) findDecl(name string) (*ast.FuncDecl, string, error) {
	var matches []*ast.FuncDecl
	var canonNames []string
	for _, f := range t.ld.Files {
		for _, d := range f.Decls {
			fd, ok := d.(*ast.FuncDecl)
			if !ok {
				continue
			}
			canon, tn, _ := goFuncName(fd)
			if canon == name || (tn != "" && tn+"."+fd.Name.Name == name) {
				matches = append(matches, fd)
				canonNames = append(canonNames, canon)
			}
		}
	}
	if len(matches) == 0 {
		return nil, "", fmt.Errorf("function %q not found in package %s", name, t.ld.PkgPath)
	}
	if len(matches) > 1 {
		return nil, "", fmt.Errorf("function name %q is ambiguous", name)
	}
	return matches[0], canonNames[0], nil
}

func NewTranslator(ld *Loaded, cfg *Config, names []string) (tr *Translator, err error) {
	t := &Translator{ld: ld, cfg: cfg, byObj: map[*types.Func]*Func{}, tables: map[*types.Var]*Table{},
		globals: map[string]bool{}, pkgVars: map[*types.Var]*pkgVarInfo{}}
	defer func() {
		if r := recover(); r != nil {
			if te, ok := r.(*transErr); ok {
				err = fmt.Errorf("%s: %s", t.posStr(te.pos), te.msg)
				return
			}
			panic(r)
		}
	}()
	seen := map[*ast.FuncDecl]bool{}
	for _, n := range names {
		n = normalizeFuncKey(n)
		if n == "" {
			continue
		}
		d, canon, e := t.findDecl(n)
		if e != nil {
			return nil, e
		}
		if seen[d] {
			continue
		}
		seen[d] = true
		f := &Func{GoName: canon, decl: d, scSeen: map[string]bool{}, oracleAt: map[*ast.CallExpr][]*OracleSite{}}
		obj, _ := ld.Info.Defs[d.Name].(*types.Func)
		if obj == nil {
			return nil, fmt.Errorf("no type information for %s", canon)
		}
		f.obj = obj
		f.sig = obj.Type().(*types.Signature)
		_, tn, ptr := goFuncName(d)
		if tn != "" {
			f.CoqName = sanitize(tn) + "_" + sanitize(d.Name.Name)
			f.recvPtr = ptr
		} else {
			f.CoqName = sanitize(d.Name.Name)
		}
		if reservedNames[f.CoqName] {
			f.CoqName += "_"
		}
		f.OkName = f.CoqName + "_ok"
		t.funcs = append(t.funcs, f)
		t.byObj[obj] = f
	}
	if len(t.funcs) == 0 {
		return nil, fmt.Errorf("no functions requested")
	}
	for _, f := range t.funcs {
		for _, n := range []string{f.CoqName, f.OkName} {
			if t.globals[n] {
				return nil, fmt.Errorf("Coq name %s is produced twice (functions %s ...); rename or translate separately", n, f.GoName)
			}
			t.globals[n] = true
		}
	}
	// config keys must refer to requested functions
	for k := range cfg.Fields {
		if t.funcByKey(k) == nil {
			return nil, fmt.Errorf("config fields: %q is not a requested function", k)
		}
	}
	for k := range cfg.AbstractParams {
		if t.funcByKey(k) == nil {
			return nil, fmt.Errorf("config abstract_params: %q is not a requested function", k)
		}
	}
	for _, f := range t.funcs {
		t.setupFunc(f)
	}
	t.callGraph()
	return t, nil
}

func (t *Translator) funcByKey(k string) *Func {
	for _, f := range t.funcs {
		if f.GoName == k {
			return f
		}
		_, tn, _ := goFuncName(f.decl)
		if tn != "" && tn+"."+f.decl.Name.Name == k {
			return f
		}
	}
	return nil
}

func (t *Translator) cfgFor(f *Func) (fields []string, abs map[string]AbstractCfg) {
	for k, v := range t.cfg.Fields {
		if t.funcByKey(k) == f {
			fields = v
		}
	}
	for k, v := range t.cfg.AbstractParams {
		if t.funcByKey(k) == f {
			abs = v
		}
	}
	return
}

func (t *Translator) setupFunc(f *Func) {
	d := f.decl
	if d.Body == nil {
		t.failf(d.Pos(), "function %s has no body", f.GoName)
	}
	if d.Type.TypeParams != nil || f.sig.TypeParams() != nil || f.sig.RecvTypeParams() != nil {
		t.failf(d.Pos(), "generic function %s: unsupported", f.GoName)
	}
	if f.sig.Variadic() {
		t.failf(d.Pos(), "variadic function %s: unsupported", f.GoName)
	}
	// source hash
	p0 := t.ld.Fset.Position(d.Pos())
	p1 := t.ld.Fset.Position(d.End())
	src := t.ld.Src[p0.Filename]
	f.SrcSHA = fmt.Sprintf("%x", sha256.Sum256(src[p0.Offset:p1.Offset]))

	fieldNames, abs := t.cfgFor(f)

	if f.sig.Recv() != nil {
		f.recv = f.sig.Recv()
	}
	// receiver fields
	if len(fieldNames) > 0 {
		if f.recv == nil {
			t.failf(d.Pos(), "config fields given for %s which has no receiver", f.GoName)
		}
		rt := f.recv.Type()
		if p, ok := rt.Underlying().(*types.Pointer); ok {
			rt = p.Elem()
		}
		st, ok := rt.Underlying().(*types.Struct)
		if !ok {
			t.failf(d.Pos(), "receiver of %s is not a struct", f.GoName)
		}
		for _, fn := range fieldNames {
			var fv *types.Var
			for i := 0; i < st.NumFields(); i++ {
				if st.Field(i).Name() == fn {
					fv = st.Field(i)
				}
			}
			if fv == nil {
				t.failf(d.Pos(), "receiver of %s has no field %q", f.GoName, fn)
			}
			g, ok := classify(fv.Type())
			if !ok || g.k == kList {
				t.failf(d.Pos(), "field %s of receiver of %s has unsupported type %s", fn, f.GoName, fv.Type())
			}
			f.fields = append(f.fields, fieldInfo{fn, fv, g})
		}
	}
	// abstract params
	params := f.sig.Params()
	absNames := make([]string, 0, len(abs))
	for k := range abs {
		absNames = append(absNames, k)
	}
	sort.Strings(absNames)
	for _, pn := range absNames {
		ac := abs[pn]
		var pv *types.Var
		for i := 0; i < params.Len(); i++ {
			if params.At(i).Name() == pn {
				pv = params.At(i)
			}
		}
		if pv == nil {
			t.failf(d.Pos(), "abstract_params: %s has no parameter %q", f.GoName, pn)
		}
		ex, err := parser.ParseExpr(ac.Expr)
		if err != nil {
			t.failf(d.Pos(), "abstract_params: cannot parse expr %q: %v", ac.Expr, err)
		}
		if ac.As == "" {
			t.failf(d.Pos(), "abstract_params: %s.%s needs \"as\"", f.GoName, pn)
		}
		ap := &absParam{obj: pv, as: ac.As, expr: types.ExprString(ex), mk: ac.Make}
		// find the type of the abstracted expression: first occurrence in the body
		ast.Inspect(d.Body, func(n ast.Node) bool {
			e, ok := n.(ast.Expr)
			if !ok || ap.found {
				return !ap.found
			}
			if t.matchesAbstract(e, ap) {
				g, ok := classify(t.ld.Info.TypeOf(e))
				if !ok || g.k == kList {
					t.failf(e.Pos(), "abstract expression %s has unsupported type %s", ap.expr, t.ld.Info.TypeOf(e))
				}
				ap.ty = g
				ap.goT = t.ld.Info.TypeOf(e)
				ap.found = true
				return false
			}
			return true
		})
		if !ap.found {
			t.failf(d.Pos(), "abstract_params: expression %q does not occur in %s", ap.expr, f.GoName)
		}
		f.abstract = append(f.abstract, ap)
	}
	// results
	res := f.sig.Results()
	for i := 0; i < res.Len(); i++ {
		rv := res.At(i)
		g, ok := classify(rv.Type())
		if !ok {
			t.failf(d.Type.Results.Pos(), "result %d of %s has unsupported type %s", i, f.GoName, rv.Type())
		}
		f.Results = append(f.Results, Result{"result", rv.Name(), types.TypeString(rv.Type(), t.qualifier), g, rv.Type()})
		if rv.Name() != "" {
			f.resultNames = append(f.resultNames, rv)
		}
	}
	if len(f.resultNames) != 0 && len(f.resultNames) != res.Len() {
		t.failf(d.Pos(), "internal: partially named results")
	}
	for _, fi := range f.fields {
		f.Results = append(f.Results, Result{"field", fi.name, types.TypeString(fi.v.Type(), t.qualifier), fi.ty, fi.v.Type()})
	}
	if len(f.Results) == 0 {
		t.failf(d.Pos(), "function %s has no results and no configured receiver fields: nothing to model", f.GoName)
	}
}

func (t *Translator) qualifier(p *types.Package) string {
	if p == t.ld.Pkg {
		return ""
	}
	return p.Path()
}

// matchesAbstract: e prints exactly as the configured expression and every
// identifier in it that has the parameter's name denotes the parameter.
func (t *Translator) matchesAbstract(e ast.Expr, ap *absParam) bool {
	if types.ExprString(e) != ap.expr {
		return false
	}
	ok := true
	mentions := false
	ast.Inspect(e, func(n ast.Node) bool {
		if id, isID := n.(*ast.Ident); isID && id.Name == ap.obj.Name() {
			if t.ld.Info.Uses[id] == types.Object(ap.obj) {
				mentions = true
			} else if _, isField := t.ld.Info.Uses[id].(*types.Var); isField && t.ld.Info.Uses[id].(*types.Var).IsField() {
				// a field or method selector that happens to share the name
			} else if _, isFn := t.ld.Info.Uses[id].(*types.Func); isFn {
			} else {
				ok = false
			}
		}
		return true
	})
	return ok && mentions
}

// ---------------------------------------------------------------- call graph

// calleeObj resolves the statically called function of a call, or nil.
func (t *Translator) calleeObj(call *ast.CallExpr) types.Object {
	switch fun := ast.Unparen(call.Fun).(type) {
	case *ast.Ident:
		return t.ld.Info.Uses[fun]
	case *ast.SelectorExpr:
		if sel, ok := t.ld.Info.Selections[fun]; ok {
			if sel.Kind() == types.MethodVal {
				return sel.Obj()
			}
			return nil
		}
		return t.ld.Info.Uses[fun.Sel]
	}
	return nil
}

func (t *Translator) callGraph() {
	for _, f := range t.funcs {
		seen := map[*Func]bool{}
		ast.Inspect(f.decl.Body, func(n ast.Node) bool {
			switch n := n.(type) {
			case *ast.CallExpr:
				if fo, ok := t.calleeObj(n).(*types.Func); ok {
					if g := t.byObj[fo]; g != nil {
						if g == f {
							f.recursive = true
						} else if !seen[g] {
							seen[g] = true
							f.callees = append(f.callees, g)
						}
					}
				}
			case *ast.ForStmt:
				if _, counted := t.classifyFor(n); !counted {
					f.hasGenLoop = true
				}
			}
			return true
		})
	}
	// topological order, stable w.r.t. the requested order
	const (
		white = iota
		grey
		black
	)
	color := map[*Func]int{}
	var order []*Func
	var visit func(f *Func, from *Func)
	visit = func(f *Func, from *Func) {
		switch color[f] {
		case black:
			return
		case grey:
			t.failf(from.decl.Pos(), "mutual recursion between %s and %s: unsupported", from.GoName, f.GoName)
		}
		color[f] = grey
		for _, g := range f.callees {
			visit(g, f)
		}
		color[f] = black
		order = append(order, f)
	}
	for _, f := range t.funcs {
		visit(f, f)
	}
	t.funcs = order
	for _, f := range t.funcs {
		f.fuelled = f.recursive || f.hasGenLoop
		for _, g := range f.callees {
			if g.fuelled {
				f.fuelled = true
			}
		}
	}
}

// ---------------------------------------------------------------- loops: static shape

type forShape struct {
	iv    *types.Var // induction variable
	init  ast.Expr
	bound ast.Expr
	op    token.Token // LSS LEQ GTR GEQ
	ity   string
}

// assignedIn collects the variables (and configured receiver fields) assigned
// anywhere inside the given nodes.
func (t *Translator) assignedIn(nodes ...ast.Node) map[*types.Var]bool {
	out := map[*types.Var]bool{}
	mark := func(e ast.Expr) {
		if v := t.lvalueVar(e); v != nil {
			out[v] = true
		}
	}
	for _, n := range nodes {
		if n == nil {
			continue
		}
		ast.Inspect(n, func(n ast.Node) bool {
			switch s := n.(type) {
			case *ast.AssignStmt:
				for _, l := range s.Lhs {
					mark(l)
				}
			case *ast.IncDecStmt:
				mark(s.X)
			case *ast.RangeStmt:
				if s.Tok == token.ASSIGN {
					if s.Key != nil {
						mark(s.Key)
					}
					if s.Value != nil {
						mark(s.Value)
					}
				}
			}
			return true
		})
	}
	return out
}

// lvalueVar: the variable denoted by an assignable expression of the subset
// (identifier or receiver-field selector), or nil.
func (t *Translator) lvalueVar(e ast.Expr) *types.Var {
	switch e := ast.Unparen(e).(type) {
	case *ast.Ident:
		if e.Name == "_" {
			return nil
		}
		if o, ok := t.ld.Info.Defs[e].(*types.Var); ok && o != nil {
			return o
		}
		if o, ok := t.ld.Info.Uses[e].(*types.Var); ok {
			return o
		}
	case *ast.SelectorExpr:
		if sel, ok := t.ld.Info.Selections[e]; ok && sel.Kind() == types.FieldVal {
			if v, ok := sel.Obj().(*types.Var); ok {
				return v
			}
		}
	}
	return nil
}

func (t *Translator) varsUsedIn(e ast.Expr) map[*types.Var]bool {
	out := map[*types.Var]bool{}
	ast.Inspect(e, func(n ast.Node) bool {
		switch x := n.(type) {
		case *ast.Ident:
			if v, ok := t.ld.Info.Uses[x].(*types.Var); ok {
				out[v] = true
			}
		}
		return true
	})
	return out
}

func (t *Translator) hasCall(e ast.Expr) bool {
	found := false
	ast.Inspect(e, func(n ast.Node) bool {
		if c, ok := n.(*ast.CallExpr); ok {
			if tv, ok := t.ld.Info.Types[c.Fun]; ok && (tv.IsType() || tv.IsBuiltin()) {
				return true
			}
			if fo, ok := t.calleeObj(c).(*types.Func); ok && fo.Pkg() != nil && fo.Pkg().Path() == "math/bits" {
				return true
			}
			found = true
		}
		return true
	})
	return found
}

// classifyFor recognises `for i := a; i OP b; i++/--` where the body neither
// assigns i nor any variable of b, and b contains no calls other than
// conversions, builtins and math/bits intrinsics.  Such a loop runs at most
// |b - a| (+1) times, which is its fuel.
func (t *Translator) classifyFor(fs *ast.ForStmt) (*forShape, bool) {
	if fs.Init == nil || fs.Cond == nil || fs.Post == nil {
		return nil, false
	}
	as, ok := fs.Init.(*ast.AssignStmt)
	if !ok || as.Tok != token.DEFINE || len(as.Lhs) != 1 || len(as.Rhs) != 1 {
		return nil, false
	}
	id, ok := as.Lhs[0].(*ast.Ident)
	if !ok {
		return nil, false
	}
	iv, ok := t.ld.Info.Defs[id].(*types.Var)
	if !ok || iv == nil {
		return nil, false
	}
	g, ok := classify(iv.Type())
	if !ok || g.k != kInt {
		return nil, false
	}
	post, ok := fs.Post.(*ast.IncDecStmt)
	if !ok {
		return nil, false
	}
	if pv := t.lvalueVar(post.X); pv != iv {
		return nil, false
	}
	cond, ok := ast.Unparen(fs.Cond).(*ast.BinaryExpr)
	if !ok {
		return nil, false
	}
	cx, ok := ast.Unparen(cond.X).(*ast.Ident)
	if !ok || t.ld.Info.Uses[cx] != types.Object(iv) {
		return nil, false
	}
	switch {
	case post.Tok == token.INC && (cond.Op == token.LSS || cond.Op == token.LEQ):
	case post.Tok == token.DEC && (cond.Op == token.GTR || cond.Op == token.GEQ):
	default:
		return nil, false
	}
	assigned := t.assignedIn(fs.Body)
	if assigned[iv] {
		return nil, false
	}
	for v := range t.varsUsedIn(cond.Y) {
		if assigned[v] || v == iv {
			return nil, false
		}
	}
	// receiver fields used in the bound: check through selectors
	badField := false
	ast.Inspect(cond.Y, func(n ast.Node) bool {
		if se, ok := n.(*ast.SelectorExpr); ok {
			if v := t.lvalueVar(se); v != nil && assigned[v] {
				badField = true
			}
		}
		return true
	})
	if badField || t.hasCall(cond.Y) {
		return nil, false
	}
	return &forShape{iv: iv, init: as.Rhs[0], bound: cond.Y, op: cond.Op, ity: g.ity}, true
}

// ---------------------------------------------------------------- package-level vars

func (t *Translator) buildParents() {
	if t.parents != nil {
		return
	}
	t.parents = map[ast.Node]ast.Node{}
	for _, f := range t.ld.Files {
		var stack []ast.Node
		ast.Inspect(f, func(n ast.Node) bool {
			if n == nil {
				stack = stack[:len(stack)-1]
				return true
			}
			if len(stack) > 0 {
				t.parents[n] = stack[len(stack)-1]
			}
			stack = append(stack, n)
			return true
		})
	}
}

// pkgVar decides whether a package-level variable may be treated as a
// constant: it must have a ValueSpec with one initialiser per name (or none),
// be unexported (or listed in assume_const_vars), and every use in the
// package must be a plain read: for scalars any rvalue position that is not
// an assignment target, ++/--, or operand of &; for arrays/slices only
// x[i] (as rvalue), len(x) and `range x`.
func (t *Translator) pkgVar(v *types.Var, at token.Pos) *pkgVarInfo {
	if pi, ok := t.pkgVars[v]; ok {
		return pi
	}
	pi := &pkgVarInfo{}
	t.pkgVars[v] = pi
	t.buildParents()
	// find the spec
	for _, f := range t.ld.Files {
		for _, d := range f.Decls {
			gd, ok := d.(*ast.GenDecl)
			if !ok || gd.Tok != token.VAR {
				continue
			}
			for _, s := range gd.Specs {
				vs := s.(*ast.ValueSpec)
				for i, n := range vs.Names {
					if t.ld.Info.Defs[n] == types.Object(v) {
						pi.spec, pi.idx = vs, i
					}
				}
			}
		}
	}
	if pi.spec == nil {
		pi.why = "declaration not found"
		return pi
	}
	if len(pi.spec.Values) != 0 && len(pi.spec.Values) != len(pi.spec.Names) {
		pi.why = "initialised from a multi-value expression"
		return pi
	}
	if v.Exported() {
		assumed := false
		for _, a := range t.cfg.AssumeConstVars {
			if a == v.Name() || a == t.ld.PkgPath+"."+v.Name() {
				assumed = true
			}
		}
		if !assumed {
			pi.why = "exported variable can be assigned by other packages (list it in assume_const_vars to trust it)"
			return pi
		}
	}
	g, _ := classify(v.Type())
	isAgg := g.k == kList
	for id, obj := range t.ld.Info.Uses {
		if obj != types.Object(v) {
			continue
		}
		var n ast.Node = id
		p := t.parents[n]
		for {
			if pe, ok := p.(*ast.ParenExpr); ok {
				n, p = pe, t.parents[pe]
				continue
			}
			break
		}
		bad := func(why string) {
			if pi.why == "" || t.posStr(id.Pos()) < pi.why {
				pi.why = fmt.Sprintf("%s at %s", why, t.posStr(id.Pos()))
			}
		}
		if isAgg {
			switch pp := p.(type) {
			case *ast.IndexExpr:
				if pp.X != n {
					break // used as an index value: a read of ... an aggregate? cannot be; fallthrough to bad below
				}
				// the index expression itself must be an rvalue
				var m ast.Node = pp
				q := t.parents[m]
				for {
					if pe, ok := q.(*ast.ParenExpr); ok {
						m, q = pe, t.parents[pe]
						continue
					}
					break
				}
				if !rvaluePosition(m, q) {
					bad("element is assigned or has its address taken")
				}
				continue
			case *ast.CallExpr:
				if fid, ok := ast.Unparen(pp.Fun).(*ast.Ident); ok && fid.Name == "len" {
					if _, isB := t.ld.Info.Uses[fid].(*types.Builtin); isB {
						continue
					}
				}
			case *ast.RangeStmt:
				if pp.X == n {
					continue
				}
			}
			bad("aggregate is used other than by x[i], len(x) or range x")
			continue
		}
		if !rvaluePosition(n, p) {
			bad("variable is assigned or has its address taken")
		}
	}
	if pi.why == "" {
		pi.readonly = true
	}
	return pi
}

func rvaluePosition(n, parent ast.Node) bool {
	switch p := parent.(type) {
	case *ast.AssignStmt:
		for _, l := range p.Lhs {
			if l == n {
				return false
			}
		}
	case *ast.IncDecStmt:
		return false
	case *ast.UnaryExpr:
		if p.Op == token.AND {
			return false
		}
	case *ast.RangeStmt:
		if p.Key == n || p.Value == n {
			return false
		}
	case *ast.SliceExpr:
		if p.X == n {
			return false
		}
	case *ast.SelectorExpr:
		// method call on the variable could mutate it through a pointer receiver
		return false
	}
	return true
}

func (t *Translator) constLit(v constant.Value, ty types.Type, pos token.Pos) (string, gty) {
	g, ok := classify(ty)
	if !ok {
		t.failf(pos, "constant of unsupported type %s", ty)
	}
	switch g.k {
	case kBool:
		if v.Kind() != constant.Bool {
			t.failf(pos, "internal: non-bool constant of bool type")
		}
		if constant.BoolVal(v) {
			return "true", g
		}
		return "false", g
	case kInt:
		iv := constant.ToInt(v)
		if iv.Kind() != constant.Int {
			t.failf(pos, "constant %s is not an integer", v)
		}
		s := iv.ExactString()
		if strings.HasPrefix(s, "-") {
			s = "(" + s + ")"
		}
		return s, g
	default:
		if v.Kind() != constant.String {
			t.failf(pos, "internal: non-string constant of string type")
		}
		bs := []byte(constant.StringVal(v))
		return byteListLit(bs), g
	}
}

func byteListLit(bs []byte) string {
	if len(bs) == 0 {
		return "(@nil Z)"
	}
	var b strings.Builder
	b.WriteString("(")
	for _, c := range bs {
		fmt.Fprintf(&b, "%d :: ", c)
	}
	b.WriteString("nil)")
	return b.String()
}

// table returns the Coq definition for a read-only package-level array/slice
// of integer constants.
func (t *Translator) table(v *types.Var, at token.Pos) *Table {
	if tb, ok := t.tables[v]; ok {
		return tb
	}
	pi := t.pkgVar(v, at)
	if !pi.readonly {
		t.failf(at, "package variable %s cannot be used as a constant table: %s", v.Name(), pi.why)
	}
	g, _ := classify(v.Type())
	if len(pi.spec.Values) == 0 {
		t.failf(at, "package variable %s has no initialiser", v.Name())
	}
	cl, ok := ast.Unparen(pi.spec.Values[pi.idx]).(*ast.CompositeLit)
	if !ok {
		t.failf(at, "package variable %s is not initialised by a composite literal", v.Name())
	}
	n := int64(-1)
	if at, ok := v.Type().Underlying().(*types.Array); ok {
		n = at.Len()
	}
	vals := map[int64]string{}
	idx, max := int64(0), int64(-1)
	for _, el := range cl.Elts {
		val := el
		if kv, ok := el.(*ast.KeyValueExpr); ok {
			ktv := t.ld.Info.Types[kv.Key]
			if ktv.Value == nil {
				t.failf(kv.Pos(), "non-constant key in table %s", v.Name())
			}
			k, exact := constant.Int64Val(constant.ToInt(ktv.Value))
			if !exact {
				t.failf(kv.Pos(), "bad key in table %s", v.Name())
			}
			idx = k
			val = kv.Value
		}
		tv := t.ld.Info.Types[val]
		if tv.Value == nil {
			t.failf(val.Pos(), "non-constant element in table %s", v.Name())
		}
		s, _ := t.constLit(tv.Value, tv.Type, val.Pos())
		vals[idx] = s
		if idx > max {
			max = idx
		}
		idx++
	}
	if n < 0 {
		n = max + 1
	}
	if n > 1<<20 {
		t.failf(at, "table %s too large", v.Name())
	}
	tb := &Table{v: v, ty: g, pos: v.Pos()}
	for i := int64(0); i < n; i++ {
		if s, ok := vals[i]; ok {
			tb.elems = append(tb.elems, s)
		} else {
			tb.elems = append(tb.elems, "0")
		}
	}
	name := sanitize(v.Name())
	if reservedNames[name] {
		name += "_"
	}
	for t.globals[name] {
		name += "_tbl"
	}
	t.globals[name] = true
	tb.CoqName = name
	t.tables[v] = tb
	t.tabList = append(t.tabList, tb)
	return tb
}
