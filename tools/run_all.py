#!/usr/bin/env python3
"""Run every accepted check (quick tier by default) on /repo, a few at a time, and summarise.
usage: tools/run_all.py [--seed N] [--tier quick|thorough] [--jobs J] [ids...]"""
import subprocess, sys, os, time, concurrent.futures as cf
root = os.path.dirname(os.path.dirname(os.path.abspath(__file__)))
args = sys.argv[1:]
seed, tier, jobs, ids = None, "quick", 2, []
while args:
    a = args.pop(0)
    if a == "--seed": seed = args.pop(0)
    elif a == "--tier": tier = args.pop(0)
    elif a == "--jobs": jobs = int(args.pop(0))
    else: ids.append(a)
if not ids:
    ids = open(os.path.join(root, "spec/accepted.txt")).read().split()
def run(i):
    cmd = ["./check", i, "--tier", tier]
    env = dict(os.environ, GOFLAGS="-mod=mod", GOPROXY="off")
    if seed: env["VERIF_SEED"] = seed
    t = time.time()
    p = subprocess.run(cmd, cwd=root, env=env, capture_output=True, text=True)
    out = p.stdout + p.stderr
    last = [l for l in out.splitlines() if l.startswith(i + " ") or l.startswith("VIOLATION") or l.startswith("KNOWN-FINDING")]
    return i, p.returncode, time.time() - t, last
bad = []
with cf.ThreadPoolExecutor(jobs) as ex:
    for i, rc, dt, last in ex.map(run, sorted(ids)):
        viol = [l for l in last if l.startswith("VIOLATION")]
        kn = len([l for l in last if l.startswith("KNOWN-FINDING")])
        status = "OK" if rc == 0 and not viol else "FAIL"
        print(f"{i} {status} rc={rc} {dt:.0f}s known={kn} " + " | ".join(l for l in last if not l.startswith("KNOWN-FINDING"))[:300], flush=True)
        if status != "OK": bad.append(i)
print("FAILED:", " ".join(bad) if bad else "none")
sys.exit(1 if bad else 0)
