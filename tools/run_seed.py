#!/usr/bin/env python3
"""run_seed.py Cxx [n]: run ./check Cxx against the seeded worktree /tmp/seed-Cxx, record patch/demo/meta + outcome under seeded/Cxx-n/."""
import json, os, shutil, subprocess, sys, re
pid = sys.argv[1]; n = sys.argv[2] if len(sys.argv) > 2 else "1"
root = os.path.dirname(os.path.dirname(os.path.abspath(__file__)))
wt = "/tmp/seed-" + pid + ("" if n == "1" else "-" + n)
env = dict(os.environ, VERIF_REPO=wt)
p = subprocess.run(["./check", pid], cwd=root, env=env, stdout=subprocess.PIPE, stderr=subprocess.STDOUT, text=True)
lines = [l for l in p.stdout.splitlines() if not l.startswith("note:") and not l.startswith("KNOWN-FINDING")]
viol = [l for l in lines if l.startswith("VIOLATION")]
if p.returncode == 1 and viol and not viol[0].rstrip().endswith("no-failing-input-found"):
    outcome = "caught: exit 1, %s (concrete failing input)" % viol[0]
    what = ""
    m = re.search(r"replay=(\S+)", viol[0])
    if m and os.path.exists(m.group(1)):
        r = json.load(open(m.group(1))); what = r.get("what", "") + " | " + json.dumps(r.get("replay"))[:400]
    outcome += " -- " + what
elif p.returncode == 1 and viol:
    outcome = "caught as a broken obligation/correspondence: exit 1, %s; %s" % (viol[0], "; ".join(l for l in lines if l.startswith("BROKEN")))
elif p.returncode == 0:
    outcome = "MISSED: exit 0 (" + (lines[-1] if lines else "") + ")"
else:
    outcome = "check did not run: exit %d: %s" % (p.returncode, " / ".join(lines[-3:]))
d = os.path.join(root, "seeded", "%s-%s" % (pid, n)); os.makedirs(d, exist_ok=True)
for f in ("patch.diff", "demo_test.go.txt"):
    src = os.path.join(wt, "_seed", f)
    if os.path.exists(src): shutil.copy(src, d)
for f in os.listdir(os.path.join(wt, "_seed")):
    if f.startswith("demo") and f != "demo_test.go.txt": shutil.copy(os.path.join(wt, "_seed", f), d)
meta = {}
mp = os.path.join(wt, "_seed", "meta.json")
if os.path.exists(mp):
    try: meta = json.load(open(mp))
    except Exception: meta = {"raw": open(mp).read()}
meta["confirmed_by_lead"] = {"demo": "seeding agent's report: the demonstration fails with the change and passes without it; the touched packages' existing tests pass with the change",
                             "check": "VERIF_REPO=%s ./check %s -> %s" % (wt, pid, outcome)}
json.dump(meta, open(os.path.join(d, "meta.json"), "w"), indent=1)
print(pid, outcome[:300])
