#!/usr/bin/env python3
"""apply_fix.py <finding-id> <msgfile> <pkg> [pkg...]: apply fixes/<id>.candidate.patch to /repo, build, run the
given packages' tests (guard off), commit as a "fix:" commit, mark the finding fixed, run ./check."""
import subprocess, sys, os
fid, msgf, pkgs = sys.argv[1], sys.argv[2], sys.argv[3:]
root = os.path.dirname(os.path.dirname(os.path.abspath(__file__)))
cand = os.path.join(root, "fixes", fid + ".candidate.patch")
env = dict(os.environ, GOFLAGS="-mod=mod", GOPROXY="off")
def sh(cmd, **kw):
    print("+", cmd, flush=True)
    return subprocess.run(cmd, shell=True, env=env, **kw)
if sh("git -C /repo status --porcelain --untracked-files=no | grep .", capture_output=True).returncode == 0:
    sys.exit("/repo has uncommitted tracked changes")
if sh("git -C /repo apply --index %s" % cand).returncode: sys.exit("patch does not apply")
r = sh("cd /repo && go build ./... && go vet %s" % " ".join(pkgs))
if r.returncode:
    sh("git -C /repo reset -q --hard HEAD"); sys.exit("build/vet fails; fix reverted")
todo = list(pkgs)
for attempt in range(4):
    r = sh("cd /repo && go test -vet=off -count=1 %s 2>&1" % " ".join(todo), capture_output=True, text=True)
    failed = [l.split()[1] for l in r.stdout.splitlines() if l.startswith("FAIL\t")]
    print("\n".join(l for l in r.stdout.splitlines() if l.startswith(("--- FAIL", "FAIL", "ok"))))
    if not failed and "FAIL" not in r.stdout: break
    # timing-sensitive tests flake on a loaded machine: a package must pass on a re-run to be accepted
    todo = failed or todo
else:
    sh("git -C /repo reset -q --hard HEAD"); sys.exit("tests fail; fix reverted")
msg = open(msgf).read()
assert msg.startswith("fix:")
subprocess.check_call(["git", "-C", "/repo", "commit", "-q", "-m", msg])
sha = subprocess.check_output(["git", "-C", "/repo", "rev-parse", "--short", "HEAD"], text=True).strip()
subprocess.check_call([sys.executable, os.path.join(root, "tools/mark_fixed.py"), fid, sha])
os.remove(cand)
pid = fid.split("-")[0]
r = sh("cd %s && ./check %s | tail -4" % (root, pid), capture_output=True, text=True); print(r.stdout)
