#!/usr/bin/env python3
"""rerun_seed.py <Cxx-n> [...]: re-create a scratch worktree of /repo HEAD, apply seeded/<Cxx-n>/patch.diff, run
VERIF_REPO=<worktree> ./check Cxx, update the recorded outcome in seeded/<Cxx-n>/meta.json ("recheck"), remove the worktree.
With --jobs J several seeds are processed in parallel (different properties only run concurrently; same property serialises on the run lock)."""
import json, os, subprocess, sys, re, concurrent.futures as cf
root = os.path.dirname(os.path.dirname(os.path.abspath(__file__)))
args = sys.argv[1:]; jobs = 1
key = "recheck"
while args and args[0] in ("--jobs", "--key"):
    if args[0] == "--jobs": jobs = int(args[1])
    else: key = args[1]
    args = args[2:]
if not args:
    args = sorted(os.listdir(os.path.join(root, "seeded")), key=lambda x: (x.split("-")[1], x))  # interleave properties
def one(sid):
    pid = sid.split("-")[0]
    d = os.path.join(root, "seeded", sid)
    patch = os.path.join(d, "patch.diff")
    if not os.path.exists(patch): return sid, "no patch.diff"
    wt = "/tmp/reseed-" + sid
    subprocess.run(["git", "-C", "/repo", "worktree", "remove", "--force", wt], capture_output=True)
    subprocess.check_call(["git", "-C", "/repo", "worktree", "add", "--detach", wt, "HEAD"], stdout=subprocess.DEVNULL, stderr=subprocess.DEVNULL)
    try:
        a = subprocess.run(["git", "-C", wt, "apply", "--3way", patch], capture_output=True, text=True)
        if a.returncode != 0:
            a = subprocess.run(["git", "-C", wt, "apply", patch], capture_output=True, text=True)
        if a.returncode != 0:
            return sid, "patch no longer applies to HEAD (the code it changes was repaired since): " + a.stderr.strip().splitlines()[-1][:160]
        b = subprocess.run("cd %s && go build ./... 2>&1 | tail -3" % wt, shell=True, capture_output=True, text=True,
                           env=dict(os.environ, GOFLAGS="-mod=mod", GOPROXY="off"))
        if b.stdout.strip():
            return sid, "patched tree does not build on HEAD: " + b.stdout.strip()[:200]
        p = subprocess.run(["./check", pid], cwd=root, env=dict(os.environ, VERIF_REPO=wt, GOFLAGS="-mod=mod", GOPROXY="off"),
                           stdout=subprocess.PIPE, stderr=subprocess.STDOUT, text=True)
        lines = [l for l in p.stdout.splitlines() if not l.startswith("note:") and not l.startswith("KNOWN-FINDING")]
        viol = [l for l in lines if l.startswith("VIOLATION")]
        if p.returncode == 1 and viol and not viol[0].rstrip().endswith("no-failing-input-found"):
            out = "caught with a concrete failing input"
            m = re.search(r"replay=(\S+)", viol[0])
            if m and os.path.exists(m.group(1)):
                out += ": " + str(json.load(open(m.group(1))).get("what", ""))[:160]
        elif p.returncode == 1 and viol:
            out = "caught as a broken obligation/correspondence (no-failing-input-found): " + "; ".join(l for l in lines if l.startswith("BROKEN"))[:200]
        elif p.returncode == 0:
            out = "MISSED: exit 0"
        else:
            out = "check did not run: exit %d: %s" % (p.returncode, " / ".join(lines[-2:])[:200])
        return sid, out
    finally:
        subprocess.run(["git", "-C", "/repo", "worktree", "remove", "--force", wt], capture_output=True)
head = subprocess.check_output(["git", "-C", "/repo", "rev-parse", "--short", "HEAD"], text=True).strip()
res = {}
with cf.ThreadPoolExecutor(jobs) as ex:
    for sid, out in ex.map(one, args):
        print(sid, out, flush=True); res[sid] = out
        mp = os.path.join(root, "seeded", sid, "meta.json")
        if os.path.exists(mp):
            m = json.load(open(mp)); m[key] = "re-run against /repo %s with the final checks%s: %s" % (head, (" (VERIF_SEED=%s)" % os.environ["VERIF_SEED"]) if os.environ.get("VERIF_SEED") else "", out)
            json.dump(m, open(mp, "w"), indent=1)
subprocess.run(["git", "-C", "/repo", "worktree", "prune"])
bad = [s for s, o in res.items() if o.startswith("MISSED") or o.startswith("check did not run")]
print("NOT CAUGHT:", " ".join(bad) if bad else "none")
