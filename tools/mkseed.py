#!/usr/bin/env python3
"""mkseed.py Cxx [suffix] : creates a scratch worktree /tmp/seed-Cxx[suffix] of /repo HEAD with _seed/TASK.md
(the adversary brief + the text of the property, nothing from /verif's machinery)."""
import json, os, subprocess, sys
pid = sys.argv[1]; suf = sys.argv[2] if len(sys.argv) > 2 else ""
wt = "/tmp/seed-%s%s" % (pid, suf)
if not os.path.isdir(wt):
    subprocess.check_call(["git", "-C", "/repo", "worktree", "add", "--detach", wt, "HEAD"], stdout=subprocess.DEVNULL, stderr=subprocess.DEVNULL)
brief = open(os.path.join(os.path.dirname(os.path.abspath(__file__)), "seed_prompt.txt")).read()
for l in open("/verif/properties.jsonl"):
    p = json.loads(l)
    if p["id"] == pid:
        break
os.makedirs(os.path.join(wt, "_seed"), exist_ok=True)
with open(os.path.join(wt, "_seed", "TASK.md"), "w") as f:
    f.write(brief)
    f.write("Your worktree: %s\n\nProperty %s — %s\n\nStatement: %s\n\nQuantified over: %s\n\nAnchored in: %s\n" % (
        wt, p["id"], p["title"], p["statement"], p["quantifier"]["text"], ", ".join(p["anchors"]["files"])))
    import glob
    prev = []
    for mp in sorted(glob.glob("/verif/seeded/%s-*/meta.json" % pid)):
        try:
            m = json.load(open(mp)); prev.append("- " + str(m.get("summary", ""))[:500])
        except Exception:
            pass
    if prev:
        f.write("\nEarlier adversaries already produced the following changes for this property; yours must be DIFFERENT in kind: "
                "pick another clause of the statement, another function or another mechanism (not a variation of these):\n" + "\n".join(prev) + "\n")
    mech = p["anchors"].get("mechanism") or []
    if mech:
        f.write("\nMechanisms meant to make it hold: " + "; ".join("%s (%s)" % (m.get("name"), m.get("where")) for m in mech) + "\n")
print(wt)
