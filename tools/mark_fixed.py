#!/usr/bin/env python3
"""mark_fixed.py <finding-id> <commit>: set status=fixed + commit in findings/Cxx.json and save the patch under fixes/."""
import json, subprocess, sys, os
fid, sha = sys.argv[1], sys.argv[2]
pid = fid.split("-")[0]
root = os.path.dirname(os.path.dirname(os.path.abspath(__file__)))
p = os.path.join(root, "findings", pid + ".json")
d = json.load(open(p))
ok = False
for f in d["findings"]:
    if f["id"] == fid:
        f["status"] = "fixed"; f["commit"] = sha
        f["fixed"] = "fixed: property=%s %s %s" % (pid, sha, f["what"][:220])
        ok = True
assert ok, "finding not found"
json.dump(d, open(p, "w"), indent=1)
open(os.path.join(root, "fixes", fid + ".patch"), "w").write(subprocess.check_output(["git", "-C", "/repo", "show", sha], text=True))
print("marked", fid, sha)
